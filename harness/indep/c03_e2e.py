"""C03 e2e machinery: random memory + random annotated control file -> sna2skool -> skool2ctl -b ->
sna2skool; textual equality and second-trip fixed point.  Imported by props/c03.py (generator, space predicate, tool runner, witnesses)."""
import contextlib
import io
import os

# ---- instruction templates for code regions: (bytes template, operand count) -------------
# 'n' = random byte, 'w' = two random bytes (little endian word)
CODE_OPS = [
    ((0x00,), 0), ((0xC9,), 0), ((0xAF,), 0), ((0x78,), 0), ((0x23,), 0), ((0xF3,), 0),
    ((0x3E, 'n'), 1), ((0x06, 'n'), 1), ((0xD3, 'n'), 1), ((0xC6, 'n'), 1), ((0xFE, 'n'), 1),
    ((0x36, 'n'), 1), ((0xCB, 0x47), 0), ((0xED, 0x44), 0), ((0xDD, 0x23), 0), ((0xDD, 0x7E, 'n'), 1),
    ((0x21, 'w'), 1), ((0x01, 'w'), 1), ((0xC3, 'w'), 1), ((0xCD, 'w'), 1), ((0x32, 'w'), 1), ((0x3A, 'w'), 1),
    ((0x22, 'w'), 1), ((0xDD, 0x36, 'n', 'n'), 2), ((0xFD, 0x36, 'n', 'n'), 2), ((0xDD, 0x21, 'w'), 1),
    ((0xED, 0x4B, 'w'), 1), ((0xDD, 0xCB, 'n', 0x46), 1), ((0xFD, 0xCB, 'n', 0xC6), 1), ((0xC7,), 0), ((0xFF,), 0),
    ((0x18, 'j'), 1), ((0x20, 'j'), 1), ((0x10, 'j'), 1), ((0xDD, 0x86, 'n'), 1), ((0xED, 0x43, 'w'), 1),
]

WORDS = ('the', 'a', 'routine', 'data', 'value', 'HL', 'A', 'loop', 'counter', 'x', 'is', 'set', 'to', 'zero',
         'and', 'then', 'jump', 'back', 'sprite', 'buffer', '#R32768', '$8000', '(unused)', 'end.', 'B,C', 'I',
         'really-quite-long-hyphenated-word', 'supercalifragilisticexpialidocious', '1', '2*3', 'a:b', '"q"',
         'it\'s', '#N(1,,,1)($)', '#HTML(<b>)', 'x;y', '+', '-', '@', '>', '*')
DOTS = ('.', '..', '...', '....')


def rand_text(rng, lo=1, hi=12, tricky=True, para=False):
    """para=True: text of a title/D/N/E paragraph, where a wrapped line consisting of '.' alone would *be* the
    paragraph separator of the skool format, so the standalone word '.' is left out."""
    n = rng.randint(lo, hi)
    ws = [rng.choice(WORDS) for _ in range(n)]
    if tricky and rng.random() < 0.15:
        ws.insert(rng.randrange(len(ws) + 1), rng.choice(('..', 'e.g.', '.x', 'x.', ';', 'a;b', ':', ',') + (() if para else ('.',))))
    return ' '.join(ws)


class Unit:
    """A run of memory with a natural statement type."""
    __slots__ = ('kind', 'addr', 'size', 'nops')

    def __init__(self, kind, addr, size, nops=0):
        self.kind, self.addr, self.size, self.nops = kind, addr, size, nops


def fill_code(rng, mem, addr, limit):
    """Lay out one instruction at addr; returns (size, nops) or None if nothing fits."""
    for _ in range(8):
        tpl, nops = rng.choice(CODE_OPS)
        tpl = tuple(x for t in tpl for x in ((t, None) if t == 'w' else (t,)))
        if addr + len(tpl) <= limit:
            for i, t in enumerate(tpl):
                if t == 'n':
                    mem[addr + i] = rng.choice((0, 1, 33, 65, 127, 128, 200, 255, rng.randrange(256)))
                elif t == 'j':
                    mem[addr + i] = rng.choice((0, 2, 5, 0x7F, 0xFE, 0xF0))
                elif t == 'w':
                    v = rng.choice((0, 255, 256, 32768, 65535, rng.randrange(65536)))
                    mem[addr + i] = v & 255
                    mem[addr + i + 1] = v >> 8
                elif isinstance(t, int):
                    mem[addr + i] = t
            return len(tpl), nops
    mem[addr] = 0
    return 1, 0


def fill_data(rng, mem, addr, size, kind):
    if kind == 'S':
        v = rng.choice((0, 0, 255, 65, rng.randrange(256)))
        for i in range(size):
            mem[addr + i] = v
        if size > 1 and rng.random() < 0.15:
            mem[addr + rng.randrange(size)] = (v + 1) & 255     # mixed values: DEFS falls back to DEFB
    elif kind == 'T':
        for i in range(size):
            mem[addr + i] = rng.choice((65, 66, 97, 32, 34, 92, 44, 59, 58, 42, 46, 123, 125, 94, 96, 0, 13, 200,
                                        65 + 128, 34 + 128, rng.randrange(32, 127)))
    else:
        for i in range(size):
            mem[addr + i] = rng.choice((0, 1, 255, 128, 65, 34, 92, rng.randrange(256)))


BASES1 = ('', '', '', 'b', 'c', 'd', 'h', 'm', 'n')


def rand_sublen_spec(rng, kind, n):
    """A sublength spec string covering n bytes for one statement of type kind (B/T/W/S)."""
    if kind == 'S':
        s = rng.choice(('', '', 'b', 'c', 'd', 'h', 'n')) + str(n)     # not 'm': sna2skool would write a negative DEFS size
        if rng.random() < 0.4:
            s += ':' + rng.choice(('b', 'c', 'd', 'h', 'm', 'n'))
        return s
    if kind == 'W':
        parts = []
        left = n
        while left > 0:
            k = min(left, 2 * rng.randint(1, 2))
            parts.append(rng.choice(BASES1) + str(k))
            left -= k
        return ':'.join(parts)
    parts = []
    left = n
    while left > 0:
        k = rng.randint(1, min(left, 4))
        parts.append(rng.choice(BASES1) + str(k))
        left -= k
    return ':'.join(parts)


class CaseGen:
    """Generates (org, memory bytes, ctl lines)."""

    def __init__(self, rng, keep=False, feats=None):
        self.rng = rng
        self.keep = keep        # skool2ctl -k: line breaks survive, so dot/colon continuation forms are in scope
        self.end_opt = False    # True: no terminal 'i' directive; the caller passes `-e END` to sna2skool
        self.flags = Flags()
        self.force_first = False
        self.force_all = False
        self.force_comment = False
        self.feats = feats or {}

    def on(self, name, p):
        if name in self.feats:
            return self.feats[name]
        return self.rng.random() < p

    def gen(self):
        rng = self.rng
        org = rng.choice((32768, 32768, 40000, 65536 - 96, 16384, 0, 1000))
        total = rng.randint(8, 90)
        if org + total > 65536:
            total = 65536 - org
        mem = [0] * 65536
        end = org + total
        lines = []
        addr = org
        first = True
        tags = set()
        while addr < end:
            size = min(rng.randint(1, 40), end - addr)
            ectl = rng.choice('bcgistuwccbbt')
            if ectl == 'i' and addr + size >= end:
                ectl = 'b'       # the extent of a final 'i' entry is not representable in a skool file
            addr = self.gen_entry(mem, lines, addr, size, ectl, first, addr + size >= end, tags)
            first = False
        if end < 65536 and not self.end_opt:
            lines.append('i {}'.format(end))
        return org, mem[org:end], lines, tags

    # -- entry ---------------------------------------------------------------------------
    def gen_entry(self, mem, lines, start, size, ectl, first, last, tags):
        rng = self.rng
        end = start + size
        # lay out units
        units = []
        a = start
        natural = {'b': 'B', 'c': 'C', 'g': 'B', 'i': 'B', 's': 'S', 't': 'T', 'u': 'B', 'w': 'W'}[ectl]
        while a < end:
            kind = natural if rng.random() < 0.7 else rng.choice('BCSTW')
            if kind == 'C':
                n, nops = fill_code(rng, mem, a, end)
                units.append(Unit('C', a, n, nops))
            else:
                n = min(rng.randint(1, 9), end - a)
                if kind == 'W' and n % 2:
                    if n > 1:
                        n -= 1
                    else:
                        kind = 'B'
                fill_data(rng, mem, a, n, kind)
                units.append(Unit(kind, a, n))
            a += n
        A = str
        if self.on('hexaddr', 0.1):
            A = lambda x: '${:04X}'.format(x)
        # header block(s)
        if self.on('header', 0.15):
            tags.add('header')
            for k in range(rng.randint(1, 2)):
                if k:
                    lines.append('> ' + A(start))
                for _ in range(rng.randint(1, 3)):
                    lines.append('> {} {}'.format(A(start), rng.choice(('; ' + rand_text(rng), ';', '; Copyright', '@rom', '@start',
                                                                        '; x', '@defb=23296:1,2', ';  indented', '@set-crlf=1'))))
        # entry-level asm directives
        if self.on('entryasm', 0.2):
            tags.add('entryasm')
            for _ in range(rng.randint(1, 2)):
                lines.append('@ {} {}'.format(A(start), rng.choice(('start', 'org', 'org=' + str(start), 'set-tab=1', 'writer=x.y.Z', 'equ=X=1',
                                                                    'replace=/a/b', 'end', 'expand=#DEF(#X 1)', 'if({asm})(start)',
                                                                    'assemble=2,1', 'remote=foo:32768', 'rom', 'bank=1'))))
        title = rand_text(rng, 1, 8, para=True) if self.on('title', 0.8) else ''
        has = {'t': bool(title), 'd': self.on('desc', 0.35), 'r': self.on('regs', 0.25), 'e': self.on('endc', 0.25)}
        if self.on('ignoreua-entry', 0.15):
            # only for comment kinds that are present: a dangling @ignoreua has nothing to attach to
            for t in 'tdre':
                if has[t] and rng.random() < 0.6:
                    tags.add('ignoreua-entry')
                    lines.append('@ {} ignoreua:{}{}'.format(A(start), t, rng.choice(('', '', '=32768', '=1,$8000'))))
        # title
        style = rng.random()
        if style < 0.75 or not title or not self.keep:
            lines.append('{} {} {}'.format(ectl, A(start), title).rstrip())
        else:
            tags.add('dot-title')
            lines.append('{} {}'.format(ectl, A(start)))
            ws = title.split(' ')
            k = rng.randint(1, len(ws))
            lines.append('. ' + ' '.join(ws[:k]))
            if ws[k:]:
                lines.append('. ' + ' '.join(ws[k:]))
        # description
        if has['d']:
            tags.add('D')
            self.gen_paragraphs(lines, 'D', A(start), tags)
        # registers
        if has['r']:
            tags.add('R')
            if rng.random() < 0.8 or not self.keep:
                for _ in range(rng.randint(1, 3)):
                    reg = rng.choice(('A', 'HL', 'BC', 'O:DE', 'I:A', 'a', 'Input:HL', '(HL)', '[x y]', 'IX', "A'"))
                    lines.append('R {} {} {}'.format(A(start), reg, rand_text(rng, 0, 16, para=True) if rng.random() < 0.9 else '').rstrip())
            else:
                tags.add('dot-R')
                lines.append('R ' + A(start))
                for _ in range(rng.randint(1, 3)):
                    lines.append('. {} {}'.format(rng.choice(('A', 'HL', ' BC', 'O:DE')), rand_text(rng, 1, 6, para=True)))
        # body
        self.gen_body(mem, lines, units, ectl, A, tags, end)
        # end comment
        if has['e']:
            tags.add('E')
            self.gen_paragraphs(lines, 'E', A(start), tags)
        # footer
        if last and (self.end_opt or self.flags.footer_with_i or end >= 65536) and self.on('footer', 0.3):
            tags.add('footer')
            for k in range(rng.randint(1, 2)):
                if k:
                    lines.append('> {},1'.format(A(start)))
                for _ in range(rng.randint(1, 2)):
                    lines.append('> {},1 {}'.format(A(start), rng.choice(('; ' + rand_text(rng), '; The end', ';', '@end'))))
        return end

    def gen_paragraphs(self, lines, d, addr, tags):
        rng = self.rng
        mode = rng.random()
        if mode < 0.6 or not self.keep:
            for _ in range(rng.randint(1, 3)):
                t = rand_text(rng, 1, 30, para=True)
                if self.on('table', 0.06):
                    tags.add('table')
                    t = rng.choice(('#TABLE(default) { =h A | =h B } { 1 | two words } TABLE#',
                                    'Before. #TABLE { a | b } { c | d } TABLE# After the table.',
                                    '#LIST { first item } { second item is a really-quite-long-hyphenated-word } LIST#',
                                    '#UDGTABLE { #UDG32768 } TABLE#',
                                    '#TABLE(default,centre)<nowrap> { =h Header 1 | =h Header 2 } { Cell 1 | Cell 2 } TABLE#',
                                    '#LIST<wrapalign> { one two three four five six seven eight nine ten eleven twelve thirteen fourteen fifteen sixteen } LIST#'))
                lines.append('{} {} {}'.format(d, addr, t))
        elif mode < 0.8:
            tags.add('dot-para')
            lines.append('{} {}'.format(d, addr))
            for k in range(rng.randint(1, 3)):
                if k:
                    lines.append('. .')
                for _ in range(rng.randint(1, 3)):
                    lines.append('. ' + rand_text(rng, 1, 9, para=True))
        else:
            tags.add('dot-para')
            lines.append('{} {} {}'.format(d, addr, rand_text(rng, 1, 6, para=True)))
            for _ in range(rng.randint(1, 3)):
                lines.append('. ' + rand_text(rng, 1, 9, para=True))
            if rng.random() < 0.3:
                lines.append('{} {} {}'.format(d, addr, rand_text(rng, 1, 6, para=True)))

    # -- body ----------------------------------------------------------------------------
    def gen_body(self, mem, lines, units, ectl, A, tags, end):
        rng = self.rng
        natural = {'b': 'B', 'c': 'C', 'g': 'B', 'i': 'B', 's': 'S', 't': 'T', 'u': 'B', 'w': 'W'}[ectl]
        i = 0
        nunits = len(units)
        self.force_all = False
        if ectl == 'i':
            # an ignored entry: either no body at all, or a body whose first statement is declared
            # (skool2ctl skips the body of an 'i' entry whose first line has no statement)
            if rng.random() < 0.5:
                return
            self.force_first = True
            self.force_all = not self.flags.i_partial
        while i < nunits:
            u = units[i]
            # mid-block comment
            if self.on('N', 0.12):
                tags.add('N')
                if rng.random() < 0.3:
                    lines.append('@ {} ignoreua:m{}'.format(A(u.addr), rng.choice(('', '=1'))))
                self.gen_paragraphs(lines, 'N', A(u.addr), tags)
            # M directive over several sub-blocks
            r = rng.random()
            if r < 0.12 and i + 1 < nunits and ectl != 'i':      # (a comment over statement-less lines of an 'i' entry is not kept)
                tags.add('M')
                k = rng.randint(2, min(4, nunits - i))
                span = sum(x.size for x in units[i:i + k])
                ln = rng.choice((str(span), str(span), str(span), ''))
                rep = ',1' if rng.random() < 0.1 else ''
                if rep:
                    tags.add('M-repeat')
                spec = 'M {}'.format(A(u.addr)) + (',' + ln if ln or rep else '') + rep
                self.emit_commented(lines, spec, k, tags, allow_blank=True, m_dir=True)
                for x in units[i:i + k]:
                    self.emit_subblock(lines, [x], natural, A, tags, comment=False, mem=mem)
                i += k
                if not self.flags.m_end:
                    self.force_comment = True     # keeps a visible sub-block boundary at the end of the M span
                continue
            # a sub-block of 1..n consecutive units of the same kind
            k = 1
            while i + k < nunits and units[i + k].kind == u.kind and rng.random() < 0.6:
                k += 1
            self.emit_subblock(lines, units[i:i + k], natural, A, tags, comment=True, mem=mem)
            i += k

    def rand_comment_lines(self, n_instr, allow_blank):
        """Comment for a directive: returns (inline_text_or_None, continuation_lines)."""
        rng = self.rng
        r = rng.random()
        if r < 0.25:
            return None, []
        if r < 0.33 and allow_blank:
            return rng.choice(DOTS), []          # blank / dots-only escapes
        if r < 0.75 or not self.keep:
            t = rand_text(rng, 1, 25)
            if self.on('braces', 0.06):
                # balanced braces only (an unbalanced brace changes the extent of a comment: C18's known finding)
                ws = t.split(' ')
                ws.insert(rng.randrange(len(ws) + 1), rng.choice(('{x}', '{a b}', '{}', '{{y}}', 'f{1}')))
                t = ' '.join(ws)
            return t, []
        # dot/colon continuation form
        first = rand_text(rng, 1, 7) if rng.random() < 0.5 else None
        cont = []
        for _ in range(rng.randint(1, 4)):
            p = ':' if self.flags.colon and rng.random() < 0.3 and (cont or first is not None) else '.'
            t = rand_text(rng, 1, 7) if rng.random() < 0.9 else ''
            cont.append((p + ' ' + t).rstrip())
        if first is None and not any(c[2:].strip() for c in cont):
            cont[0] = '. ' + rand_text(rng, 1, 5)      # an all-blank comment is written as DOTS, not as blank lines
        return first, cont

    def emit_commented(self, lines, spec, n_instr, tags, allow_blank, m_dir=False):
        first, cont = self.rand_comment_lines(n_instr, allow_blank)
        if self.force_comment and not m_dir:
            self.force_comment = False
            if not (first or '').strip('.'):
                first = 'next'
        if m_dir and self.keep and not self.flags.blank_m_keep and not (first or '').strip('.') and not any(c[2:].strip() for c in cont):
            first = 'mixed'
        if first in DOTS:
            tags.add('dots-comment')
        if cont:
            tags.add('dotcolon')
        lines.append((spec + ' ' + first) if first is not None else spec)
        lines.extend(cont)

    def emit_subblock(self, lines, us, natural, A, tags, comment, mem):
        rng = self.rng
        kind = us[0].kind
        start = us[0].addr
        total = sum(x.size for x in us)
        # instruction-level asm directives
        for x in us:
            if self.on('instasm', 0.08):
                tags.add('instasm')
                ch = ('label=LOOP', 'label=*L2', 'label=', 'nowarn', 'keep', 'ssub=INC HL', 'isub=LD A,1 ; comment',
                      'rem=hello', 'nolabel', 'ofix=XOR B', 'bfix=DEFB 1', 'refs=32768', 'org', 'start', 'defb=1', 'keep=1,2')
                if self.flags.ignoreua_i:
                    ch += ('ignoreua', 'ignoreua=32768', 'ignoreua:i', 'ignoreua:i=1,2')
                # @bytes with exactly the bytes of the statement (skool2ctl sizes the last statement of the file by it); only where
                # the unit is certain to be one statement (a value count different from the statement size is a user error)
                # (data sub-blocks are excluded: written without an explicit length they extend to the next directive, so
                # the statement may be longer than the unit; the deterministic round trips cover @bytes on data statements)
                if len(us) == 1 and kind == 'C':
                    ch += ('bytes=' + ','.join(('${:02X}' if x.addr % 2 else '{}').format(b) for b in mem[x.addr:x.addr + x.size]),) * 2
                lines.append('@ {} {}'.format(A(x.addr), rng.choice(ch)))
        d = kind if (kind != natural or rng.random() < 0.5) else ' '
        spec = '{} {}'.format(d, A(start))
        r = rng.random()
        if kind == 'C':
            if r < 0.5:
                spec += ',' + str(total)
            elif r < 0.8:
                tags.add('C-bases')
                b = rng.choice(('b', 'c', 'd', 'h', 'm', 'n', 'bd', 'hb', 'nb', 'dn', 'mh', 'cc', 'nn'))
                if rng.random() < 0.5 or len(us) == 1:
                    spec += ',' + b + str(total)
                else:
                    parts = [rng.choice(('', b, 'h', 'b', 'd')) + str(x.size) for x in us]
                    spec += ',{},{}'.format(total, ','.join(parts))
        else:
            if r < 0.3:
                spec += ',' + str(total)
            elif r < 0.45:
                spec += ',' + rng.choice('bcdhn' if kind == 'S' else 'bcdhmn') + str(total)
            elif r < 0.9:
                tags.add('sublengths')
                parts = [rand_sublen_spec(rng, kind, x.size) for x in us]
                if rng.random() < 0.3 and len(parts) > 1:
                    parts = parts[:rng.randint(1, len(parts))]
                # abbreviate identical neighbours sometimes
                if rng.random() < 0.5:
                    out = []
                    for p in parts:
                        if out and out[-1][0] == p:
                            out[-1][1] += 1
                        else:
                            out.append([p, 1])
                    parts = [p if m == 1 else '{}*{}'.format(p, m) for p, m in out]
                    tags.add('star')
                spec += ',{},{}'.format(rng.choice((str(total), str(total), '')), ','.join(parts))
        if comment or self.force_comment:
            self.emit_commented(lines, spec, len(us), tags, allow_blank=True)
        elif spec.strip() != '{} {}'.format(d, A(start)).strip() or d != ' ' or rng.random() < 0.5 or self.force_first or self.force_all:
            lines.append(spec)
        self.force_first = False


# ---- the generator's space as a predicate (used to keep shrunk cases inside it) --------------

class Flags:
    """Shapes that are only generated once the corresponding known defect is gone (probed by witness)."""
    NAMES = ('colon', 'footer_with_i', 'ignoreua_i', 'blank_m_keep', 'm_end', 'i_partial')

    def __init__(self, *vals):
        vals = list(vals) + [True] * (len(self.NAMES) - len(vals))
        for k, v in zip(self.NAMES, vals):
            setattr(self, k, v)


def in_space(lines, keep, flags, limit=None):
    import re
    n = len(lines)
    if not lines:
        return False
    terminal = lines[-1].startswith('i ') and not any(l[0] in '.:' for l in lines[-1:])
    entries = [l for l in lines if l[0] in 'bcgistuw']
    if terminal:
        if len(entries) < 2 or entries[-2][0] == 'i':
            return False
    elif not entries or entries[-1][0] == 'i':
        return False
    if lines[0][0] in '.:':
        return False
    def num(x):
        try:
            return int(x[1:], 16) if x.startswith('$') else int(x)
        except ValueError:
            return None
    # entry extents
    starts = []
    for l in lines:
        if l[0] in 'bcgistuw':
            f = l[1:].split(None, 1)
            a = num(f[0]) if f else None
            if a is None:
                return False
            starts.append((a, l[0]))
    for i, l in enumerate(lines):
        if l[0] in ' BCSTWM':
            f = l[1:].split(None, 1)
            if not f:
                return False
            ps = f[0].split(',')
            a = num(ps[0])
            if a is None:
                return False
            owner = [k for k, (sa, c) in enumerate(starts) if sa <= a]
            if not owner:
                return False
            k = owner[-1]
            nxt = starts[k + 1][0] if k + 1 < len(starts) else 65536
            if len(ps) > 1 and ps[1].lstrip('bcdhmn').isdigit() and a + int(ps[1].lstrip('bcdhmn')) > nxt:
                return False
            if starts[k][1] == 'i' and l[0] == 'M':
                return False
            if starts[k][1] == 'i':
                # first sub-block directive of an 'i' entry must sit at the entry address
                firsts = [num(x[1:].split(None, 1)[0].split(',')[0]) for x in lines if x[0] in ' BCSTW' and x[1:].split()]
                firsts = [x for x in firsts if x is not None and starts[k][0] <= x < nxt]
                if not firsts or min(firsts) != starts[k][0]:
                    return False
    present = set()      # (kind, address-field)
    for i, l in enumerate(lines):
        c = l[0]
        nxt_dot = i + 1 < n and lines[i + 1][0] in '.:'
        if c in '.:':
            if not keep or (c == ':' and not flags.colon):
                return False
            continue
        f = l[1:].split(None, 1)
        if not f:
            return False
        addr = f[0].split(',')[0]
        text = f[1] if len(f) > 1 else ''
        if c in 'DNER':
            if not text and not nxt_dot:
                return False
            present.add((c, addr))
        elif c in 'bcgistuw':
            j = i + 1
            dots = []
            while j < n and lines[j][0] in '.:':
                dots.append(lines[j][2:].strip())
                j += 1
            if text or any(dots):
                present.add(('t', addr))
            if dots and not any(dots):
                return False
        elif c == '>':
            if ',' in f[0] and terminal and not flags.footer_with_i:
                return False
        elif c == 'M':
            ps = f[0].split(',')
            if not flags.m_end and len(ps) > 1 and ps[1].isdigit():
                e = num(ps[0]) + int(ps[1])
                ok = e == limit
                for l2 in lines:
                    f2 = l2[1:].split(None, 1)
                    if l2[0] in ' BCSTWNbcgistuw' and f2 and num(f2[0].split(',')[0]) == e:
                        if l2[0] in 'Nbcgistuw' or (len(f2) > 1 and f2[1].strip('.')):
                            ok = True
                if not ok:
                    return False
            if keep and not flags.blank_m_keep:
                j = i + 1
                dots = []
                while j < n and lines[j][0] in '.:':
                    dots.append(lines[j][2:].strip())
                    j += 1
                if not text.strip('.') and not any(dots):
                    return False
    for l in lines:
        if l.startswith('@ '):
            f = l[2:].split(None, 1)
            if len(f) < 2:
                return False
            d = f[1]
            if d.startswith('ignoreua'):
                m = re.match(r'ignoreua:([a-z])', d)
                k = m.group(1) if m else 'i'
                if k == 'i':
                    if not flags.ignoreua_i:
                        return False
                else:
                    want = {'t': 't', 'd': 'D', 'r': 'R', 'e': 'E', 'm': 'N'}.get(k)
                    if (want, f[0]) not in present:
                        return False
    return True


def asm_lines_preserved(ctl_lines, skool_text):
    """Every @ directive of the ctl file must be visible in S1 (otherwise it sat on a non-instruction address)."""
    want = sum(1 for l in ctl_lines if l.startswith('@ '))
    want += sum(1 for l in ctl_lines if l.startswith('>') and len(l.split(None, 2)) > 2 and l.split(None, 2)[2].startswith('@'))
    got = sum(1 for l in skool_text.split('\n') if l.startswith('@'))
    return want == got


# ---- running the real tools in-process ---------------------------------------------------

def run_tool(main, args):
    out, err = io.StringIO(), io.StringIO()
    with contextlib.redirect_stdout(out), contextlib.redirect_stderr(err):
        try:
            main(list(args))
            status = 'ok'
        except SystemExit as e:
            status = 'exit:' + str(e.code)
        except Exception as e:     # real tool error: reported to the caller
            status = 'error:{}:{}'.format(type(e).__name__, str(e)[:200])
    return status, out.getvalue(), err.getvalue()


class Tools:
    def __init__(self, sna2skool, skool2ctl, scratch):
        self.sna2skool, self.skool2ctl, self.scratch = sna2skool, skool2ctl, scratch
        from skoolkit.components import get_assembler
        self.assembler = get_assembler()
        self.hex_addr = False
        self.n = 0

    def path(self, name):
        return os.path.join(self.scratch, name)

    def write(self, name, data):
        p = self.path(name)
        mode = 'wb' if isinstance(data, (bytes, bytearray)) else 'w'
        with open(p, mode) as f:
            f.write(data)
        return p

    def skool(self, binfile, org, ctl_text, s_opts):
        ctl = self.write('in.ctl', ctl_text)
        return run_tool(self.sna2skool.main, ['-o', str(org), '-c', ctl, '-I', 'ListRefs=0'] + list(s_opts) + [binfile])
        # (s_opts may contain `-e END`)

    def ctl(self, skool_text, c_opts):
        sk = self.write('in.skool', skool_text)
        return run_tool(self.skool2ctl.main, ['-b'] + list(c_opts) + [sk])


def contiguous(tools, skool_text, limit=65536):
    """Validity filter for S1: every statement starts where the previous one ended (no overlaps/gaps
    inside an entry), judged by the assembler's statement sizes."""
    prev_end = None
    for line in skool_text.split('\n'):
        if not line or line[0] in ';@' or not line[1:6].strip():
            continue
        a = line[1:6]
        addr = int(a[1:], 16) if a.startswith('$') else int(a, 16 if tools.hex_addr else 10)
        op = line[6:].split(' ;')[0].strip()
        if prev_end is not None and addr != prev_end:
            return False
        if not op:
            prev_end = None
            continue
        size = tools.assembler.get_size(op, addr)
        if not size:
            return False
        prev_end = addr + size
        if prev_end > limit:
            return False
    return True


def roundtrip(tools, org, data, ctl_lines, s_opts, c_opts):
    """Returns (verdict, detail) where verdict in ok | s1-error | ctl-error | s2-error | differ | not-fixed."""
    binfile = tools.write('mem.bin', bytes(data))
    ctl1 = '\n'.join(ctl_lines) + '\n'
    st, s1, e1 = tools.skool(binfile, org, ctl1, s_opts)
    if st != 'ok':
        return 's1-error', {'status': st}
    if 'WARNING' in e1:
        return 'skip', {'warn1': e1}
    tools.hex_addr = '-H' in s_opts
    if not contiguous(tools, s1, org + len(data)):
        return 'skip', {'warn1': 'x\nnot contiguous'}
    if not asm_lines_preserved(ctl_lines, s1):
        return 'skip', {'warn1': 'x\n@ directive not on an instruction'}
    st, ctl2, e2 = tools.ctl(s1, c_opts)
    if st != 'ok':
        return 'ctl-error', {'status': st, 's1': s1}
    st, s2, e3 = tools.skool(binfile, org, ctl2, s_opts)
    if st != 'ok':
        return 's2-error', {'status': st, 's1': s1, 'ctl2': ctl2}
    if s1 != s2:
        return 'differ', {'s1': s1, 'ctl2': ctl2, 's2': s2, 'warn1': e1, 'warn2': e3}
    st, ctl3, e4 = tools.ctl(s2, c_opts)
    if st != 'ok' or ctl3 != ctl2:
        return 'not-fixed', {'s1': s1, 'ctl2': ctl2, 'ctl3': ctl3}
    return 'ok', {'s1': s1, 'ctl2': ctl2, 'warn1': e1}


# ---- directed deterministic round trips (rarely drawn shapes; every one must come back 'ok') -------------
# (name, memory bytes at 32768, ctl lines without the terminal 'i' line)
DIRECTED = [
    ('bytes-on-last-instruction', [0x3E, 1, 0xC9], ['c 32768 Routine', '@ 32770 bytes=201']),
    ('bytes-on-last-instruction-hex', [0xAF, 0xED, 0x4C], ['c 32768 Routine', '@ 32769 bytes=$ED,$4C', 'C 32769,2 negate']),
    ('bytes-on-last-statement', [1, 2, 3, 4], ['b 32768 Data', '@ 32770 bytes=3,4', 'B 32768,2', 'B 32770,2,d2 tail']),
    ('defs-char-size', [0] * 40 + [65] * 40 + [7] * 35, ['s 32768 Space', 'S 32768,c40', 'S 32808,40,c40:c', 'S 32848,35,c35:h filler']),
    ('defs-bases', [0] * 5 + [255] * 6 + [34] * 7 + [1] * 3, ['s 32768 Space', 'S 32768,b5 five', 'S 32773,6,h6:b', 'S 32779,7,d7:c quotes', 'S 32786,3,3:m']),
    ('defw-bases', [65, 0, 65, 65, 255, 255, 0, 0, 34, 0, 1, 2], ['w 32768 Words', 'W 32768,c4', 'W 32772,4,m2:b2 two', 'W 32776,4,c2:h2']),
    ('defb-mixed', [65, 66, 34, 92, 0, 255, 1, 129, 193, 59, 44, 58], ['b 32768 Bytes', 'B 32768,12,1:c3:b1:h1:m1:d1:c1:c3 mixed']),
    ('defm-mixed', [65, 66, 34, 92, 0, 255, 1, 129, 193, 59, 44, 58], ['t 32768 Text', 'T 32768,12,c4:b1:n1:m1:d1:c4', 'E 32768 The end.']),
    ('index-negative-bases', [0xDD, 0x7E, 0xFB, 0xFD, 0x36, 0x80, 0x41, 0xDD, 0x86, 0xFF, 0xFD, 0x34, 0x81],
     ['c 32768 Index', 'C 32768,h3 minus five', 'C 32771,hc4', 'C 32775,b3', 'C 32778,d3']),
    ('bit-res-set-index', [0xFD, 0xCB, 0x85, 0xC6, 0xDD, 0xCB, 0x7F, 0x46, 0xFD, 0xCB, 0xFF, 0x9E, 0xDD, 0xCB, 0x80, 0xFE],
     ['c 32768 Bits', 'C 32768,h4', 'C 32772,b4 test', 'C 32776,d4', 'C 32780,h4']),
    ('rst-io-bases', [0xCF, 0xFF, 0xDB, 0xFE, 0xD3, 0x7F, 0xC7, 0xED, 0x56], ['c 32768 Ports', 'C 32768,h2', 'C 32770,b2 read', 'C 32772,h2 write', 'C 32774,d1', 'C 32775,b2']),
    ('jumps-bases', [0x18, 0xFE, 0x10, 0x00, 0x20, 0x7F, 0xC3, 0x00, 0x80, 0xCD, 0xFF, 0xFF, 0xE9], ['c 32768 Jumps', 'C 32768,h2', 'C 32770,b2', 'C 32772,d2', 'C 32774,h3', 'C 32777,b3']),
    ('char-operands', [0x3E, 0x41, 0x06, 0xC1, 0x36, 0x22, 0xFE, 0x5C, 0x0E, 0x3B, 0xDD, 0x36, 0x41, 0x42, 0x08, 0x16, 0x20],
     ['c 32768 Chars', 'C 32768,c8 letters', 'C 32776,c2 semicolon', 'C 32778,cc4 both', 'C 32782,1', 'C 32783,c2 space']),
    ('char-then-number', [0xDD, 0x36, 0x41, 0x42, 0xFD, 0x36, 0x05, 0x41, 0x21, 0x41, 0x00], ['c 32768 Mixed', 'C 32768,ch4', 'C 32772,hc4', 'C 32776,c3']),
    ('m-repeat', [1, 2, 3, 4, 0xAF, 0xC9], ['b 32768 Data', 'M 32768,4,1 same on every line', 'B 32768,2,1', 'W 32770,2', 'c 32772 Code']),
    ('m-over-types', [1, 2, 3, 0, 65, 66, 0xAF], ['b 32768 Data', 'M 32768,6 three kinds', 'B 32768,2', 'W 32770,2', 'T 32772,2', 'C 32774,1 tail']),
    ('brace-comments', [0, 0, 0, 0, 0, 0], ['b 32768 Data', 'B 32768,2,1 {x} starts and ends with {y}', 'B 32770,1 {z}', 'B 32771,2,1 f{1} {{a}}', 'B 32773,1 }{ no']),
    ('blank-groups', [0] * 9, ['b 32768 Data', 'B 32768,3,1 .', 'B 32771,2,1 ...', 'B 32773,1 ..', 'B 32774,3,1']),
    ('paragraphs', [0xC9, 0xC9], ['c 32768 Routine', 'D 32768 First paragraph.', 'D 32768 Second paragraph with e.g. dots...', 'R 32768 A value', 'R 32768 O:HL result',
                                  'R 32768 (DE) pointer', 'N 32768 Start comment.', 'N 32768 More.', 'N 32769 Mid-block.', 'E 32768 End one.', 'E 32768 End two.']),
    ('no-title-sections', [0xC9, 1], ['c 32768', 'D 32768 Description only.', 'b 32769', 'R 32769 A only a register', 'u 32770']),
    ('ignoreua-all', [0xC9, 0xC9], ['@ 32768 ignoreua:t', 'c 32768 Routine at 32768', '@ 32768 ignoreua:d=32768', 'D 32768 See 32768.', '@ 32768 ignoreua:r', 'R 32768 A 32768',
                                    '@ 32768 ignoreua:m=1,2', 'N 32768 Start 32768.', '@ 32768 ignoreua:i', 'C 32768,1 at 32768', '@ 32769 ignoreua:m', 'N 32769 Mid 32768.',
                                    '@ 32769 ignoreua=32768', 'C 32769,1 again', '@ 32768 ignoreua:e=$8000', 'E 32768 End 32768.']),
    ('header-footer', [0xC9], ['> 32768 ; Header one', '> 32768 ;', '> 32768 ;  indented', '> 32768', '> 32768 @start', '> 32768 ; Header two', '@ 32768 org', '@ 32768 rom',
                               'c 32768 Routine', '> 32768,1 ; Footer one', '> 32768,1', '> 32768,1 ; Footer two', '> 32768,1 @end']),
    ('entry-types', [1, 2, 3, 4, 5, 6, 0, 0, 65, 66, 7, 8, 9, 10], ['g 32768 Game', 'B 32768,2,1', 'u 32770 Unused', '  32770,2', 's 32772 Space', 'S 32772,2', '  32774,2,1',
                                                                  't 32776 Text', '  32776,2', 'B 32778,1', 'w 32779 Words', '  32779,2 one', 'B 32781,1']),
    ('instruction-asm', [0x3E, 1, 0xC9, 0], ['c 32768 Routine', '@ 32768 label=START', '@ 32768 isub=LD A,2 ; two', '@ 32768 keep', '@ 32770 nowarn', '@ 32770 ssub=RET Z',
                                            '@ 32770 rem=Returns.', '@ 32771 label=*', '@ 32771 refs=32768', 'C 32768,2 load', 'C 32770,1', 'C 32771,1 pad']),
    ('semicolon-quotes', [0x3E, 0x3B, 59, 34, 59, 58, 32, 0x3E, 0x22], ['c 32768 Routine', 'C 32768,c2 a ; in the operand', 'T 32770,5 text "with" ; and :', 'C 32775,c2 quote']),
]
DIRECTED_OPTS = (([], []), (['-H', '-l'], ['-k']), (['-H'], ['-h']), (['-l', '-w', '60'], ['-k', '-l']))
KEEP_ONLY = [
    ('keep-colon-lines', [0, 0, 0], ['b 32768 Data', 'B 32768,3,1 first', ': still first', '. second', '. third', ': still third']),
    ('keep-dot-sections', [0xC9], ['c 32768', '. Title over', '. two lines', 'D 32768', '. Para one', '. .', '. Para two', 'R 32768', '. A value', '.   continued', 'N 32768', '. Start', 'E 32768', '. End']),
]


def operand_sweep(tools, pair):
    """One instruction per decoder slot that takes a numeric operand (templates with '{}' in the real tables; the x6/xE columns of
    DDCB/FDCB), operand bytes = pair, each followed by one NOP."""
    from skoolkit import disassembler, snaskool
    cfg = snaskool.DisassemblerConfig(False, False, 8, 65, 1, 0, snaskool.Instruction, '', 0)
    d = disassembler.Disassembler([0] * 65536, cfg)
    a, b = pair
    out = []
    for x in sorted(d.ops):
        if '{' in d.ops[x][1]:
            out += [x, a, b, 0]
    for x in sorted(d.after_ED):
        if '{' in d.after_ED[x][1]:
            out += [0xED, x, a, b, 0]
    for p in (0xDD, 0xFD):
        for x in sorted(d.after_DD):
            if '{' in d.after_DD[x][1]:
                out += [p, x, a, b, 0]
        for x in range(6, 256, 8):
            out += [p, 0xCB, a, x, 0]
    return out


def directed_cases(tools):
    """(name, org, data, ctl lines, sna2skool options, skool2ctl options)"""
    org = 32768
    for name, data, lines in DIRECTED:
        for s_opts, c_opts in DIRECTED_OPTS:
            yield name, org, data, lines + ['i {}'.format(org + len(data))], s_opts, c_opts
    for name, data, lines in KEEP_ONLY:
        for s_opts in ([], ['-H', '-l', '-w', '60']):
            yield name, org, data, lines + ['i {}'.format(org + len(data))], s_opts, ['-k']
    k = 0
    for base in ('b', 'c', 'd', 'h', 'n', 'hb', 'dc', 'cn', 'bd'):
        for s_opts, c_opts in ((['-l'], []), (['-H'], ['-h'])):
            pair = ((0x41, 0x5C), (0x7F, 0x80), (0x81, 0xFF))[k % 3] if 'c' not in base else ((0x41, 0x5C), (0x3B, 0xC1))[k % 2]
            k += 1
            try:
                data = operand_sweep(tools, pair)
            except Exception:       # the decoder tables are not where they used to be: no sweep rather than a harness failure
                data = []
            if not data:
                continue
            lines = ['c {} Sweep'.format(org), 'C {},{}{}'.format(org, base, len(data)), 'i {}'.format(org + len(data))]
            yield 'operand-sweep:{}:{:02X}{:02X}'.format(base, *pair), org, data, lines, s_opts, c_opts


# ---- fixed witnesses of the defects found while building this check -------------------------
# (key, flag that re-enables the shape in the generator, org, memory bytes, ctl lines, sna2skool opts, skool2ctl opts, description)
WITNESSES = [
    ('keep-lines-colon-lost-before-blank-groups', 'colon', 32768, [0, 0],
     ['b 32768 Title', 'B 32768,2,1', '. one', ': two', 'i 32770'], [], ['-k'],
     "skool2ctl -k writes '. two' instead of ': two' when the following comment groups are blank: the second comment "
     "line moves from the first DEFB to the second (CtlWriter.write_sub_block/_write_lines)"),
    ('keep-lines-blank-M-comment-loses-braces', 'blank_m_keep', 32768, [0, 0, 0],
     ['b 32768 Title', 'M 32768,3', '.', 'B 32768,1', 'W 32769,2', 'i 32771'], [], ['-k'],
     "skool2ctl -k writes a bare 'M 32768' for a blank comment spanning DEFB+DEFW: the braces disappear "
     "(CtlWriter.write_sub_block pops every blank group of an M directive)"),
    ('footer-before-terminal-i-grows-blank-line', 'footer_with_i', 32768, [0, 0, 0, 0, 0],
     ['b 32768 Title', '> 32768,1 ; The end', 'i 32773'], [], [],
     "a footer block followed by the terminal 'i' directive gains an empty '> 32768,1' block (one more blank line) on every trip "
     "(SkoolParser._parse_skool keeps the empty non-entry block read_skool yields at EOF)"),
    ('ignoreua-i-lost-in-merged-sub-blocks', 'ignoreua_i', 32768, [0x3E, 1, 0xAF, 0x3E, 2],
     ['c 32768 Title', '@ 32771 ignoreua', 'i 32773'], [], [],
     "an instruction-level @ignoreua is dropped by sna2skool when skool2ctl -b emits 'C 32768,5,d2,1,d2' "
     "(Disassembly._create_entries merges sub-blocks without their ignoreua directives)"),
    ('M-end-is-not-a-sub-block-boundary', 'm_end', 32768, [1, 0, 0xAF, 0x78, 0x79],
     ['c 32768 Title', 'M 32768,3 mixed', 'W 32768,2', 'C 32770,1', 'C 32771', 'i 32773'], [], [],
     "the closing brace of an M comment moves to the end of the sub-block because 'M a,n' creates no boundary at a+n "
     "(CtlParser.parse_ctls)"),
    ('i-entry-blank-remainder-becomes-code', 'i_partial', 32768, [1, 2, 3, 4, 5, 6],
     ['i 32768 Title', 'B 32768,2', 'b 32772 Data', 'i 32774'], [], [],
     "skool2ctl writes 'C 32770' for the statement-less remainder of an 'i' entry, which then disassembles as code "
     "(CtlWriter.write_body)"),
]


def probe(tools, w):
    """True when the witness still breaks the round trip (or the second-trip fixed point)."""
    key, flag, org, data, lines, s_opts, c_opts, desc = w
    v, d = roundtrip(tools, org, data, lines, s_opts, c_opts)
    return v in ('differ', 'not-fixed', 'ctl-error', 's2-error'), v, d
