"""Independent bit-level oracle for the Z80's 8-bit ALU / rotate / BIT / DAA tables (no skoolkit
imports, no table formulas copied from simtables.py): each flag is computed from its definition
in the Z80 CPU User Manual / "The Undocumented Z80 Documented" (S Z 5 H 3 P/V N C = bits 7..0).

Used by harness/props/c05.py for the exhaustive sweep of the *real* `skoolkit.simtables` tuples (the
Lean side checks the translated formulas against Spec/Z80Alu.lean; this checks the tuple values the
simulators actually index at run time) and to name the failing entry when a table is wrong."""


def _bit(v, k):
    return (v >> k) & 1


def _sgn(v):
    return v if v < 128 else v - 256


def _par(v):
    p = 1
    for k in range(8):
        p ^= _bit(v, k)
    return p            # 1 = even parity


def _f(s, z, f5, h, f3, pv, n, c):
    return (s << 7) | (z << 6) | (f5 << 5) | (h << 4) | (f3 << 3) | (pv << 2) | (n << 1) | c


def _res(r, h, pv, n, c):
    return _f(_bit(r, 7), int(r == 0), _bit(r, 5), h, _bit(r, 3), pv, n, c)


def adc(c, a, n):
    s = a + n + c
    r = s & 255
    h = int((a & 15) + (n & 15) + c > 15)
    sv = _sgn(a) + _sgn(n) + c
    return r, _res(r, h, int(sv < -128 or sv > 127), 0, int(s > 255))


def sbc(c, a, n):
    r = (a - n - c) & 255
    h = int((a & 15) < (n & 15) + c)
    sv = _sgn(a) - _sgn(n) - c
    return r, _res(r, h, int(sv < -128 or sv > 127), 1, int(a < n + c))


def cp(a, n):
    r = (a - n) & 255
    h = int((a & 15) < (n & 15))
    sv = _sgn(a) - _sgn(n)
    return a, _f(_bit(r, 7), int(r == 0), _bit(n, 5), h, _bit(n, 3), int(sv < -128 or sv > 127), 1, int(a < n))


def and_(a, n):
    r = a & n
    return r, _res(r, 1, _par(r), 0, 0)


def or_(a, n):
    r = a | n
    return r, _res(r, 0, _par(r), 0, 0)


def xor_(a, n):
    r = a ^ n
    return r, _res(r, 0, _par(r), 0, 0)


def inc(c, v):
    r = (v + 1) & 255
    return r, _res(r, int((v & 15) == 15), int(v == 0x7F), 0, c)


def dec(c, v):
    r = (v - 1) & 255
    return r, _res(r, int((v & 15) == 0), int(v == 0x80), 1, c)


def neg(a):
    return sbc(0, 0, a)


def _shift(r, cout):
    return r, _res(r, 0, _par(r), 0, cout)


def rlc(v): return _shift(((v << 1) & 255) | (v >> 7), v >> 7)
def rrc(v): return _shift((v >> 1) | ((v & 1) << 7), v & 1)
def rl(c, v): return _shift(((v << 1) & 255) | c, v >> 7)
def rr(c, v): return _shift((v >> 1) | (c << 7), v & 1)
def sla(v): return _shift((v << 1) & 255, v >> 7)
def sll(v): return _shift(((v << 1) & 255) | 1, v >> 7)
def sra(v): return _shift((v >> 1) | (v & 128), v & 1)
def srl(v): return _shift(v >> 1, v & 1)


def _accrot(f, r, cout):
    return r, _f(_bit(f, 7), _bit(f, 6), _bit(r, 5), 0, _bit(r, 3), _bit(f, 2), 0, cout)


def rlca(a, f): return _accrot(f, rlc(a)[0], a >> 7)
def rrca(a, f): return _accrot(f, rrc(a)[0], a & 1)
def rla(a, f): return _accrot(f, rl(f & 1, a)[0], a >> 7)
def rra(a, f): return _accrot(f, rr(f & 1, a)[0], a & 1)


def cpl(a, f):
    r = a ^ 255
    return r, _f(_bit(f, 7), _bit(f, 6), _bit(r, 5), 1, _bit(r, 3), _bit(f, 2), 1, f & 1)


def scf(f, a):
    return _f(_bit(f, 7), _bit(f, 6), _bit(a, 5), 0, _bit(a, 3), _bit(f, 2), 0, 1)


def ccf(f, a):
    return _f(_bit(f, 7), _bit(f, 6), _bit(a, 5), f & 1, _bit(a, 3), _bit(f, 2), 0, (f & 1) ^ 1)


def daa(a, f):
    n, h, c = _bit(f, 1), _bit(f, 4), f & 1
    lo = a & 15
    corr = (6 if (h or lo > 9) else 0) + (0x60 if (c or a > 0x99) else 0)
    r = (a - corr) & 255 if n else (a + corr) & 255
    cout = int(c or a > 0x99)
    hout = int(h and lo < 6) if n else int(lo > 9)
    return r, _res(r, hout, _par(r), n, cout)


def bit(c, b, v):
    t = _bit(v, b)
    return _f(int(b == 7 and t), t ^ 1, _bit(v, 5), 1, _bit(v, 3), t ^ 1, 0, c)


def sz53p(v):
    return _res(v, 0, _par(v), 0, 0)


def r_inc(k, r):
    return (r & 128) | ((r + k) & 127)


# name -> (index ranges, oracle over the same indices)
TABLES = {
    'ADC': ((2, 256, 256), adc), 'SBC': ((2, 256, 256), sbc),
    'ADD': ((256, 256), lambda a, n: adc(0, a, n)), 'SUB': ((256, 256), lambda a, n: sbc(0, a, n)),
    'AND': ((256, 256), and_), 'OR': ((256, 256), or_), 'XOR': ((256, 256), xor_), 'CP': ((256, 256), cp),
    'CPL': ((256, 256), cpl), 'DAA': ((256, 256), daa), 'RLA': ((256, 256), rla), 'RLCA': ((256, 256), rlca),
    'RRA': ((256, 256), rra), 'RRCA': ((256, 256), rrca), 'CCF': ((256, 256), ccf), 'SCF': ((256, 256), scf),
    'BIT': ((2, 8, 256), bit),
    'ADC_A_A': ((2, 256), lambda c, a: adc(c, a, a)), 'SBC_A_A': ((2, 256), lambda c, a: sbc(c, a, a)),
    'INC': ((2, 256), inc), 'DEC': ((2, 256), dec), 'RL': ((2, 256), rl), 'RR': ((2, 256), rr),
    'RLC': ((256,), rlc), 'RRC': ((256,), rrc), 'SLA': ((256,), sla), 'SLL': ((256,), sll), 'SRA': ((256,), sra),
    'SRL': ((256,), srl), 'NEG': ((256,), neg), 'SZ53P': ((256,), sz53p),
    'PARITY': ((256,), lambda v: _par(v) * 4),
}


def sweep(simtables, names=None):
    """Compare every entry of the real tables with the oracle.
    Returns (entries checked, [(table, index tuple, real value, oracle value), ...] first mismatch per table)."""
    bad = []
    total = 0
    for name, (dims, fn) in TABLES.items():
        if names is not None and name not in names:
            continue
        tbl = getattr(simtables, name, None)
        if tbl is None:
            bad.append((name, (), 'missing', None))
            continue
        first = None
        if len(dims) == 1:
            for i in range(dims[0]):
                total += 1
                e = fn(i)
                if tbl[i] != e and first is None:
                    first = (name, (i,), tbl[i], e)
        elif len(dims) == 2:
            for i in range(dims[0]):
                row = tbl[i]
                for j in range(dims[1]):
                    e = fn(i, j)
                    if row[j] != e and first is None:
                        first = (name, (i, j), row[j], e)
                total += dims[1]
        else:
            for i in range(dims[0]):
                for j in range(dims[1]):
                    row = tbl[i][j]
                    for k in range(dims[2]):
                        e = fn(i, j, k)
                        if row[k] != e and first is None:
                            first = (name, (i, j, k), row[k], e)
                    total += dims[2]
        if first:
            bad.append(first)
    return total, bad
