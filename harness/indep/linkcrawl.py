"""Independent link crawler for a directory tree of HTML files (stdlib only).

Written from the HTML/URL rules, not from skoolkit: every `href`/`src` attribute of every element
of every HTML file is resolved against the directory of the file that contains it (RFC 3986
relative resolution with dot-segment removal) and looked up on disk; a `#fragment` is looked up
among the `id=` attributes (and `name=` of `<a>`) of the target file.
"""
import os
import re
from html.parser import HTMLParser
from urllib.parse import unquote, urlsplit

URL_ATTRS = ('href', 'src')
VOID = {'area', 'base', 'br', 'col', 'embed', 'hr', 'img', 'input', 'link', 'meta', 'source', 'track', 'wbr'}


class _Page(HTMLParser):
    def __init__(self):
        super().__init__(convert_charrefs=True)
        self.refs = []          # (tag, attr, value, context class)
        self.ids = {}           # id -> count
        self.stack = []         # (tag, class or None) of the open elements

    def _context(self, own):
        if own:
            return own
        for _tag, cls in reversed(self.stack):
            if cls:
                return cls
        return ''

    def _element(self, tag, attrs):
        d = dict((k, v) for k, v in attrs if v is not None)
        for k in URL_ATTRS:
            if k in d:
                self.refs.append((tag, k, d[k], self._context(d.get('class'))))
        if 'id' in d:
            self.ids[d['id']] = self.ids.get(d['id'], 0) + 1
        if tag == 'a' and 'name' in d:
            self.ids[d['name']] = self.ids.get(d['name'], 0) + 1
        return d.get('class')

    def handle_starttag(self, tag, attrs):
        cls = self._element(tag, attrs)
        if tag not in VOID:
            self.stack.append((tag, cls))

    def handle_startendtag(self, tag, attrs):
        self._element(tag, attrs)

    def handle_endtag(self, tag):
        for i in range(len(self.stack) - 1, -1, -1):
            if self.stack[i][0] == tag:
                del self.stack[i:]
                break


def parse_page(path):
    with open(path, encoding='utf-8') as f:
        text = f.read()
    p = _Page()
    p.feed(text)
    p.close()
    return p


def remove_dot_segments(segs):
    """RFC 3986 5.2.4 on the list of segments of an absolute path (clamps at the root)."""
    out = []
    for s in segs:
        if s == '.':
            continue
        if s == '..':
            if out:
                out.pop()
            continue
        out.append(s)
    return out


def is_external(url):
    return bool(re.match(r'[A-Za-z][A-Za-z0-9+.-]*:', url)) or url.startswith('//')


_GUARD = '\0root\0'


def resolve(page_rel, url):
    """Resolve `url` found in the file `page_rel` (path relative to the root, '/'-separated).
    Returns (target path relative to the root or None if it leaves the root, fragment or None)."""
    parts = urlsplit(url)
    frag = unquote(parts.fragment) if '#' in url else None
    path = unquote(parts.path)
    if path == '':
        return page_rel, frag
    if path.startswith('/'):
        return None, frag
    base = page_rel.split('/')[:-1]
    segs = remove_dot_segments([_GUARD] + base + path.split('/'))
    if not segs or segs[0] != _GUARD:
        return None, frag
    return '/'.join(s for s in segs[1:] if s != ''), frag


class Tree:
    """All files under `root`; HTML files are parsed lazily."""

    def __init__(self, root, html=None):
        self.root = root
        self.files = set()
        for d, _dirs, fnames in os.walk(root):
            for fn in fnames:
                self.files.add(os.path.relpath(os.path.join(d, fn), root).replace(os.sep, '/'))
        # the pages to crawl: those named by the caller (whatever their suffix) + every *.html
        self.html = set(f for f in self.files if f.endswith('.html'))
        if html:
            self.html |= set(h for h in html if h in self.files)
        self._pages = {}

    def page(self, rel):
        if rel not in self._pages:
            self._pages[rel] = parse_page(os.path.join(self.root, rel))
        return self._pages[rel]

    def ids(self, rel):
        try:
            return self.page(rel).ids
        except (UnicodeDecodeError, OSError):
            return {}

    def crawl(self):
        """Yield (page, tag, attr, url, context, problem) for every reference; problem is None when
        it resolves, 'external' for absolute URLs, else 'leaves-root' | 'missing-file' |
        'is-directory' | 'missing-fragment'."""
        for rel in sorted(self.html):
            try:
                refs = self.page(rel).refs
            except UnicodeDecodeError:
                continue
            for tag, attr, url, ctx in refs:
                if is_external(url):
                    yield rel, tag, attr, url, ctx, 'external'
                    continue
                target, frag = resolve(rel, url)
                if target is None:
                    problem = 'leaves-root'
                elif target not in self.files:
                    problem = 'is-directory' if os.path.isdir(os.path.join(self.root, target)) else 'missing-file'
                elif frag and frag not in self.ids(target):
                    problem = 'missing-fragment'
                else:
                    problem = None
                yield rel, tag, attr, url, ctx, problem
