"""A mini two-pass assembler for the ASM text that skool2asm writes (C04).

Independent of skoolkit's own layout logic (skoolparser.Mode / skool2bin.BinWriter): it knows only
what any Z80 assembler knows -- `ORG`, `EQU`, `LABEL:` lines, sequential placement, symbol
resolution -- and borrows skoolkit's `z80.Assembler` (passed in by the caller) for the encoding of
a single, label-free operation at a given address.

    image, info = assemble(asm_text, assembler)

`image` maps address -> byte.  `info` has 'errors' (list of strings; empty when the text
assembled), 'labels' (symbol table), 'placed' (list of (address, operation, bytes)).
"""
import re

_IDENT = re.compile(r'[A-Za-z_][A-Za-z0-9_]*')
_RESERVED = {
    'A', 'B', 'C', 'D', 'E', 'H', 'L', 'I', 'R', 'F', 'AF', 'BC', 'DE', 'HL', 'SP', 'IX', 'IY', 'IXH', 'IXL', 'IYH',
    'IYL', 'NZ', 'Z', 'NC', 'PO', 'PE', 'P', 'M', 'XH', 'XL', 'YH', 'YL'
}


def strip_comment(line):
    """Text before the first ';' that is not inside a double-quoted string."""
    quoted = False
    i = 0
    while i < len(line):
        c = line[i]
        if c == '"':
            quoted = not quoted
        elif c == '\\' and quoted:
            i += 1
        elif c == ';' and not quoted:
            return line[:i]
        i += 1
    return line


def substitute(operation, symbols, default=None):
    """Replace every identifier that is a known symbol by its decimal value (outside strings,
    not after '$' or an alphanumeric).  `default`: value used for names in `symbols` mapped to None."""
    out = []
    i = 0
    n = len(operation)
    quoted = False
    while i < n:
        c = operation[i]
        if quoted:
            out.append(c)
            if c == '\\' and i + 1 < n:
                out.append(operation[i + 1])
                i += 1
            elif c == '"':
                quoted = False
            i += 1
            continue
        if c == '"':
            quoted = True
            out.append(c)
            i += 1
            continue
        if c == '$' or c.isdigit():
            # a numeral: copy it whole so that hex digits are never taken for identifiers
            j = i + 1
            while j < n and (operation[j].isalnum() or operation[j] == '_'):
                j += 1
            out.append(operation[i:j])
            i = j
            continue
        m = _IDENT.match(operation, i)
        if m:
            name = m.group()
            if name in symbols and name.upper() not in _RESERVED:
                v = symbols[name]
                out.append(str(default if v is None else v))
            else:
                out.append(name)
            i = m.end()
            continue
        out.append(c)
        i += 1
    return ''.join(out)


def parse(asm_text):
    """-> list of ('org', expr) | ('equ', name, expr) | ('label', name) | ('op', operation)."""
    items = []
    for raw in asm_text.splitlines():
        line = strip_comment(raw).rstrip()
        if not line.strip():
            continue
        indented = line[0] in ' \t'
        body = line.strip()
        words = body.split(None, 2)
        if not indented:
            if len(words) == 3 and words[1].upper() == 'EQU':
                items.append(('equ', words[0], words[2].strip()))
                continue
            if body.endswith(':') and _IDENT.fullmatch(body[:-1]):
                items.append(('label', body[:-1]))
                continue
            items.append(('bad', body))
            continue
        if words[0].upper() == 'ORG':
            items.append(('org', body.split(None, 1)[1].strip() if len(words) >= 2 else ''))
        else:
            items.append(('op', body))
    return items


def assemble(asm_text, assembler):
    items = parse(asm_text)
    errors = []
    symbols = {}
    for it in items:
        if it[0] in ('equ', 'label'):
            if it[1] in symbols:
                errors.append('duplicate symbol ' + it[1])
            symbols[it[1]] = None
        elif it[0] == 'bad':
            errors.append('unparseable line: ' + it[1])

    def value(expr, pc):
        v = assembler.parse_word(substitute(expr, symbols, pc), default=None) if expr else None
        return v

    # pass 1: sizes and label addresses (sizes of Z80 operations do not depend on operand values;
    # unresolved symbols are sized with the current location so that relative jumps are in range)
    pc = None
    layout = []
    for it in items:
        if it[0] == 'org':
            try:
                pc = value(it[1], pc or 0)
            except ValueError:
                pc = None
            if pc is None:
                errors.append('bad ORG operand: ' + it[1])
                pc = 0
        elif it[0] == 'label':
            if pc is None:
                errors.append('label before ORG: ' + it[1])
            symbols[it[1]] = pc
        elif it[0] == 'op':
            if pc is None:
                errors.append('instruction before ORG: ' + it[1])
                pc = 0
            sized = substitute(it[1], {k: None for k in symbols}, pc)
            if sized.upper().startswith(('JR ', 'DJNZ ')):
                size = 2
            else:
                size = assembler.get_size(sized, pc)
            if not size:
                errors.append(f'cannot size: {it[1]} at {pc}')
            layout.append((pc, it[1]))
            pc += size
    # EQUs (may refer to labels and to earlier/later EQUs: iterate to a fixed point)
    for _ in range(4):
        for it in items:
            if it[0] == 'equ':
                try:
                    symbols[it[1]] = value(it[2], 0)
                except ValueError:
                    pass
    for k, v in symbols.items():
        if v is None:
            errors.append('unresolved symbol ' + k)
    # pass 2
    image = {}
    placed = []
    for addr, op in layout:
        text = substitute(op, symbols, 0)
        data = tuple(assembler.assemble(text, addr))
        if not data:
            errors.append(f'cannot assemble: {op} -> {text} at {addr}')
        for i, b in enumerate(data):
            image[(addr + i) % 65536] = b
        placed.append((addr, op, data))
    return image, {'errors': errors, 'labels': symbols, 'placed': placed}
