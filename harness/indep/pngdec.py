"""Independent PNG / APNG decoder for palette images, written from the PNG (ISO/IEC 15948) and
APNG specifications -- not from skoolkit.  Strict: every structural rule that a conforming
decoder may rely on is checked and reported as PngError(<short-kind>, detail).

decode(data) -> dict(width, height, bit_depth, palette=[(r,g,b,a)...], num_plays,
                     frames=[dict(x, y, w, h, delay_num, delay_den, dispose, blend,
                                  idx=[[palette index]], rgba=[[(r,g,b,a)]])...],
                     animated=bool, chunks=[type,...])
"""
import zlib

SIGNATURE = bytes((0x89, 0x50, 0x4E, 0x47, 0x0D, 0x0A, 0x1A, 0x0A))


class PngError(Exception):
    def __init__(self, kind, detail=''):
        Exception.__init__(self, f'{kind}: {detail}' if detail else kind)
        self.kind = kind
        self.detail = detail


def _u32(b, i=0):
    return (b[i] << 24) | (b[i + 1] << 16) | (b[i + 2] << 8) | b[i + 3]


def split_chunks(data):
    """[(type:str, payload:bytes)] after checking signature, lengths and CRCs."""
    data = bytes(data)
    if data[:8] != SIGNATURE:
        raise PngError('signature', data[:8].hex())
    pos = 8
    chunks = []
    n = len(data)
    while pos < n:
        if pos + 12 > n:
            raise PngError('chunk-truncated', f'{n - pos} trailing bytes at {pos}')
        length = _u32(data, pos)
        if length > 0x7FFFFFFF:
            raise PngError('chunk-length', f'{length} at {pos}')
        ctype = data[pos + 4:pos + 8]
        if not all(65 <= c <= 90 or 97 <= c <= 122 for c in ctype):
            raise PngError('chunk-type', repr(ctype))
        end = pos + 8 + length
        if end + 4 > n:
            raise PngError('chunk-truncated', f'{ctype!r} length {length} at {pos} runs past end of file')
        payload = data[pos + 8:end]
        crc = _u32(data, end)
        want = zlib.crc32(data[pos + 4:end]) & 0xFFFFFFFF
        if crc != want:
            raise PngError('chunk-crc', f'{ctype!r} at {pos}: stored {crc:08x}, computed {want:08x}')
        chunks.append((ctype.decode('ascii'), payload))
        pos = end + 4
        if ctype == b'IEND':
            break
    if not chunks or chunks[-1][0] != 'IEND':
        raise PngError('no-iend')
    if pos != n:
        raise PngError('trailing-data', f'{n - pos} bytes after IEND')
    if chunks[-1][1]:
        raise PngError('iend-not-empty')
    return chunks


def _inflate(stream, what):
    d = zlib.decompressobj()
    try:
        out = d.decompress(stream)
        out += d.flush()
    except zlib.error as e:
        raise PngError('zlib', f'{what}: {e}')
    if not d.eof:
        raise PngError('zlib', f'{what}: stream incomplete')
    if d.unused_data:
        raise PngError('zlib', f'{what}: {len(d.unused_data)} bytes after end of stream')
    return out


def _paeth(a, b, c):
    p = a + b - c
    pa, pb, pc = abs(p - a), abs(p - b), abs(p - c)
    if pa <= pb and pa <= pc:
        return a
    return b if pb <= pc else c


def _unfilter(raw, w, h, bit_depth, what):
    stride = (w * bit_depth + 7) // 8
    if len(raw) != h * (1 + stride):
        raise PngError('image-data-size', f'{what}: {len(raw)} bytes inflated, {w}x{h} at depth {bit_depth} needs {h * (1 + stride)}')
    rows = []
    prev = [0] * stride
    bpp = 1
    for y in range(h):
        ft = raw[y * (1 + stride)]
        line = list(raw[y * (1 + stride) + 1:(y + 1) * (1 + stride)])
        if ft == 0:
            pass
        elif ft == 1:
            for i in range(bpp, stride):
                line[i] = (line[i] + line[i - bpp]) & 255
        elif ft == 2:
            for i in range(stride):
                line[i] = (line[i] + prev[i]) & 255
        elif ft == 3:
            for i in range(stride):
                left = line[i - bpp] if i >= bpp else 0
                line[i] = (line[i] + (left + prev[i]) // 2) & 255
        elif ft == 4:
            for i in range(stride):
                left = line[i - bpp] if i >= bpp else 0
                ul = prev[i - bpp] if i >= bpp else 0
                line[i] = (line[i] + _paeth(left, prev[i], ul)) & 255
        else:
            raise PngError('filter-type', f'{what}: row {y} has filter type {ft}')
        rows.append(line)
        prev = line
    return rows


def _unpack(rows, w, bit_depth):
    per = 8 // bit_depth
    m = (1 << bit_depth) - 1
    out = []
    for line in rows:
        px = []
        for x in range(w):
            byte = line[x // per]
            shift = (per - 1 - x % per) * bit_depth
            px.append((byte >> shift) & m)
        out.append(px)
    return out


def decode(data):
    chunks = split_chunks(data)
    types = [t for t, _ in chunks]
    if types[0] != 'IHDR':
        raise PngError('ihdr-not-first', types[0])
    if types.count('IHDR') != 1:
        raise PngError('ihdr-count')
    ihdr = chunks[0][1]
    if len(ihdr) != 13:
        raise PngError('ihdr-length', str(len(ihdr)))
    width, height = _u32(ihdr, 0), _u32(ihdr, 4)
    bit_depth, colour_type, comp, filt, interlace = ihdr[8:13]
    if not 0 < width <= 0x7FFFFFFF or not 0 < height <= 0x7FFFFFFF:
        raise PngError('ihdr-dimensions', f'{width}x{height}')
    if colour_type != 3:
        raise PngError('ihdr-colour-type', str(colour_type))
    if bit_depth not in (1, 2, 4, 8):
        raise PngError('ihdr-bit-depth', str(bit_depth))
    if comp != 0 or filt != 0:
        raise PngError('ihdr-method', f'compression {comp} filter {filt}')
    if interlace != 0:
        raise PngError('ihdr-interlace', str(interlace))

    palette = None
    trns = None
    actl = None
    seen_idat = False
    idat_done = False
    idat = []
    frames = []           # [fctl dict + 'data': [bytes]]
    cur = None
    next_seq = 0
    for t, p in chunks[1:-1]:
        if t == 'IDAT':
            if idat_done:
                raise PngError('idat-not-consecutive')
            if palette is None:
                raise PngError('plte-missing-before-idat')
            if not seen_idat and cur is not None:
                cur['default'] = True
            seen_idat = True
            idat.append(p)
            continue
        if seen_idat:
            idat_done = True
        if t == 'PLTE':
            if palette is not None:
                raise PngError('plte-count')
            if seen_idat:
                raise PngError('plte-after-idat')
            if len(p) % 3 or not 3 <= len(p) <= 768:
                raise PngError('plte-length', str(len(p)))
            if len(p) // 3 > (1 << bit_depth):
                raise PngError('plte-too-long', f'{len(p) // 3} entries at bit depth {bit_depth}')
            palette = [tuple(p[i:i + 3]) for i in range(0, len(p), 3)]
        elif t == 'tRNS':
            if trns is not None:
                raise PngError('trns-count')
            if palette is None:
                raise PngError('trns-before-plte')
            if seen_idat:
                raise PngError('trns-after-idat')
            if not 1 <= len(p) <= len(palette):
                raise PngError('trns-length', f'{len(p)} alpha values for {len(palette)} palette entries')
            trns = list(p)
        elif t == 'acTL':
            if actl is not None:
                raise PngError('actl-count')
            if seen_idat:
                raise PngError('actl-after-idat')
            if len(p) != 8:
                raise PngError('actl-length', str(len(p)))
            actl = (_u32(p, 0), _u32(p, 4))
            if actl[0] == 0:
                raise PngError('actl-zero-frames')
        elif t == 'fcTL':
            if len(p) != 26:
                raise PngError('fctl-length', str(len(p)))
            seq = _u32(p, 0)
            if seq != next_seq:
                raise PngError('apng-sequence', f'fcTL has {seq}, expected {next_seq}')
            next_seq += 1
            if cur is not None and not cur['data'] and not cur.get('default'):
                raise PngError('fctl-without-data')
            if not seen_idat and cur is not None:
                raise PngError('fctl-two-before-idat')
            cur = {'w': _u32(p, 4), 'h': _u32(p, 8), 'x': _u32(p, 12), 'y': _u32(p, 16),
                   'delay_num': (p[20] << 8) | p[21], 'delay_den': (p[22] << 8) | p[23],
                   'dispose': p[24], 'blend': p[25], 'data': [], 'default': False}
            if cur['w'] == 0 or cur['h'] == 0:
                raise PngError('fctl-empty-frame', f"{cur['w']}x{cur['h']}")
            if cur['x'] + cur['w'] > width or cur['y'] + cur['h'] > height:
                raise PngError('fctl-outside-canvas', f"{cur['w']}x{cur['h']}+{cur['x']}+{cur['y']} on {width}x{height}")
            if cur['dispose'] > 2 or cur['blend'] > 1:
                raise PngError('fctl-op', f"dispose {cur['dispose']} blend {cur['blend']}")
            frames.append(cur)
        elif t == 'fdAT':
            if len(p) < 4:
                raise PngError('fdat-length')
            seq = _u32(p, 0)
            if seq != next_seq:
                raise PngError('apng-sequence', f'fdAT has {seq}, expected {next_seq}')
            next_seq += 1
            if not seen_idat:
                raise PngError('fdat-before-idat')
            if cur is None or cur.get('default'):
                raise PngError('fdat-without-fctl')
            cur['data'].append(p[4:])
        else:
            if not (ord(t[0]) & 32):
                raise PngError('unknown-critical-chunk', t)
    if not seen_idat:
        raise PngError('idat-missing')
    if palette is None:
        raise PngError('plte-missing')
    if actl is None and (frames or 'fdAT' in types):
        raise PngError('apng-chunks-without-actl')

    alphas = (trns or []) + [255] * (len(palette) - len(trns or []))
    pal = [c + (a,) for c, a in zip(palette, alphas)]

    def build(w, h, stream, what):
        rows = _unfilter(_inflate(stream, what), w, h, bit_depth, what)
        idx = _unpack(rows, w, bit_depth)
        for y, line in enumerate(idx):
            for x, v in enumerate(line):
                if v >= len(pal):
                    raise PngError('palette-index', f'{what}: pixel ({x},{y}) has index {v}, palette has {len(pal)} entries')
        return idx

    out_frames = []
    default_idx = build(width, height, b''.join(idat), 'IDAT')
    if actl is None:
        out_frames.append({'x': 0, 'y': 0, 'w': width, 'h': height, 'delay_num': 0, 'delay_den': 0,
                           'dispose': 0, 'blend': 0, 'idx': default_idx})
    else:
        if actl[0] != len(frames):
            raise PngError('actl-frame-count', f'acTL says {actl[0]}, {len(frames)} fcTL chunks')
        for n, f in enumerate(frames):
            if f['default']:
                if n != 0:
                    raise PngError('apng-default-frame-order')
                if (f['x'], f['y'], f['w'], f['h']) != (0, 0, width, height):
                    raise PngError('fctl-first-frame-geometry', f"{f['w']}x{f['h']}+{f['x']}+{f['y']}")
                idx = default_idx
            else:
                if not f['data']:
                    raise PngError('fctl-without-data')
                idx = build(f['w'], f['h'], b''.join(f['data']), f'fdAT frame {n}')
            g = {k: f[k] for k in ('x', 'y', 'w', 'h', 'delay_num', 'delay_den', 'dispose', 'blend')}
            g['idx'] = idx
            out_frames.append(g)
    for f in out_frames:
        f['rgba'] = [[pal[v] for v in line] for line in f['idx']]
    return {'width': width, 'height': height, 'bit_depth': bit_depth, 'palette': pal,
            'num_plays': actl[1] if actl else None, 'animated': actl is not None,
            'frames': out_frames, 'chunks': types}


def composite(img):
    """Canvas (rows of RGBA) after each frame, per the APNG rendering rules (dispose/blend)."""
    W, H = img['width'], img['height']
    canvas = [[(0, 0, 0, 0)] * W for _ in range(H)]
    outs = []
    for n, f in enumerate(img['frames']):
        before = [row[:] for row in canvas]
        dispose = f['dispose']
        if n == 0 and dispose == 2:
            dispose = 1
        for y in range(f['h']):
            for x in range(f['w']):
                src = f['rgba'][y][x]
                if f['blend'] == 0 or src[3] == 255:
                    canvas[f['y'] + y][f['x'] + x] = src
                elif src[3] != 0:
                    dst = canvas[f['y'] + y][f['x'] + x]
                    a = src[3] / 255
                    oa = a + dst[3] / 255 * (1 - a)
                    canvas[f['y'] + y][f['x'] + x] = tuple(
                        int(round((src[i] * a + dst[i] * dst[3] / 255 * (1 - a)) / oa)) for i in range(3)) + (int(round(oa * 255)),)
        outs.append([row[:] for row in canvas])
        if dispose == 1:
            for y in range(f['h']):
                for x in range(f['w']):
                    canvas[f['y'] + y][f['x'] + x] = (0, 0, 0, 0)
        elif dispose == 2:
            canvas = before
    return outs
