"""Independent oracle for C19: which addresses a Z80 instruction puts on the bus of a ZX Spectrum, cycle
by cycle, and how long the ULA makes the CPU wait for each of them.

Written from the documented per-instruction contention breakdown (comp.sys.sinclair FAQ / "Contended
memory" tables: `NOP pc:4`, `LD r,n pc:4,pc+1:3`, `PUSH rr pc:4,ir:1,sp-1:3,sp-2:3`, ...), the documented
6,5,4,3,2,1,0,0 wait pattern of the 48K (first contended T-state 14335, 224 T-states per line) and 128K
(14361, 228) frame layouts, and the four documented I/O cases (high byte of the port in contended
memory x low bit).  It decodes the opcode bytes itself (x/y/z bit fields) and never imports skoolkit.

    cycles(rd, regs, pc, halted, otir='post') -> [('M', address, tstates) | ('IO', port)]
    delay(machine, o7ffd, t, cyc)             -> total wait in T-states, the first cycle starting at frame position t

`rd(a)` reads a memory byte; `regs` is the 24-slot register list of skoolkit's simulators (A F B C D E H L
IXh IXl IYh IYl SP - I R + shadow set).
"""

PATTERN = (6, 5, 4, 3, 2, 1, 0, 0)
LAYOUT = {'48K': (14335, 224, 69888), '128K': (14361, 228, 70908)}


def wait(machine, t):
    """T-states the ULA holds the CPU when a contended access starts at frame position `t`."""
    first, line, frame = LAYOUT[machine]
    k = t - first
    if 0 <= k < 192 * line and k % line < 128 and t < frame:
        return PATTERN[(k % line) % 8]
    return 0


def contended(machine, o7ffd, a):
    """Is address (or port high byte region) `a` in memory the ULA shares with the CPU?"""
    if 0x4000 <= a < 0x8000:
        return True
    return machine == '128K' and (o7ffd & 1) == 1 and a >= 0xC000


def io_pattern(machine, o7ffd, port):
    """The four documented I/O contention cases -> [(contended?, tstates)]."""
    c = contended(machine, o7ffd, port)
    if port & 1:
        return [(True, 1)] * 4 if c else [(False, 4)]
    return [(True, 1), (True, 3)] if c else [(False, 1), (True, 3)]


def expand(machine, o7ffd, cyc):
    out = []
    for c in cyc:
        if c[0] == 'M':
            out.append((contended(machine, o7ffd, c[1]), c[2]))
        else:
            out.extend(io_pattern(machine, o7ffd, c[1]))
    return out


def delay(machine, o7ffd, t, cyc):
    total = 0
    for c, n in expand(machine, o7ffd, cyc):
        if c:
            w = wait(machine, t)
            total += w
            t += w
        t += n
    return total


def duration(cyc):
    return sum(4 if c[0] == 'IO' else c[2] for c in cyc)


def cycles(rd, regs, pc, halted=False, otir='post'):
    A, F, B, C, D, E, H, L = regs[:8]
    SP, I, R = regs[12], regs[14], regs[15]
    BC, DE, HL = C + 256 * B, E + 256 * D, L + 256 * H
    IR = R + 256 * I

    def P(k):
        return (pc + k) & 0xFFFF

    def M(a, n, k=1):
        return [('M', a & 0xFFFF, n)] * k

    def cond(y):
        flag = (F >> (6, 0, 2, 7)[y >> 1]) & 1
        return flag == (y & 1)

    b0 = rd(pc)
    if b0 == 0xCB:
        op = rd(P(1))
        x, z = op >> 6, op & 7
        c = M(pc, 4) + M(P(1), 4)
        if z == 6:
            c += M(HL, 3) + M(HL, 1)
            if x != 1:
                c += M(HL, 3)
        return c
    if b0 == 0xED:
        return ed_page(rd, regs, pc, otir)
    idx = None
    op = b0
    if b0 in (0xDD, 0xFD):
        idx = (regs[9] + 256 * regs[8]) if b0 == 0xDD else (regs[11] + 256 * regs[10])
        op = rd(P(1))
        if op == 0xCB:
            d = rd(P(2))
            ea = (idx + (d if d < 128 else d - 256)) & 0xFFFF
            x = rd(P(3)) >> 6
            c = M(pc, 4) + M(P(1), 4) + M(P(2), 3) + M(P(3), 3) + M(P(3), 1, 2) + M(ea, 3) + M(ea, 1)
            if x != 1:
                c += M(ea, 3)
            return c
        if not uses_hl(op):
            return M(pc, 4)                       # a prefix in front of something else: a 4 T-state NOP of its own
    o = 1 if idx is None else 2                   # offset of the first operand byte
    m1 = M(pc, 4) + (M(P(1), 4) if idx is not None else [])
    x, y, z = op >> 6, (op >> 3) & 7, op & 7
    p, q = y >> 1, y & 1

    def ea():
        d = rd(P(2))
        return (idx + (d if d < 128 else d - 256)) & 0xFFFF

    def nn():
        return rd(P(o)) + 256 * rd(P(o + 1))

    hl = HL if idx is None else idx
    if x == 0:
        if z == 0:
            if y < 2:
                return M(pc, 4)
            if y == 2:
                return M(pc, 4) + M(IR, 1) + M(P(1), 3) + (M(P(1), 1, 5) if (B - 1) & 0xFF else [])
            taken = y == 3 or cond(y - 4)
            return M(pc, 4) + M(P(1), 3) + (M(P(1), 1, 5) if taken else [])
        if z == 1:
            if q == 0:
                return m1 + M(P(o), 3) + M(P(o + 1), 3)
            return m1 + M(IR, 1, 7)
        if z == 2:
            if p == 0:
                return M(pc, 4) + M(BC, 3)
            if p == 1:
                return M(pc, 4) + M(DE, 3)
            if p == 2:
                return m1 + M(P(o), 3) + M(P(o + 1), 3) + M(nn(), 3) + M(nn() + 1, 3)
            return M(pc, 4) + M(P(1), 3) + M(P(2), 3) + M(nn(), 3)
        if z == 3:
            return m1 + M(IR, 1, 2)
        if z in (4, 5):
            if y != 6:
                return m1
            if idx is None:
                return M(pc, 4) + M(HL, 3) + M(HL, 1) + M(HL, 3)
            return m1 + M(P(2), 3) + M(P(2), 1, 5) + M(ea(), 3) + M(ea(), 1) + M(ea(), 3)
        if z == 6:
            if y != 6:
                return m1 + M(P(o), 3)
            if idx is None:
                return M(pc, 4) + M(P(1), 3) + M(HL, 3)
            return m1 + M(P(2), 3) + M(P(3), 3) + M(P(3), 1, 2) + M(ea(), 3)
        return M(pc, 4)
    if x == 1:
        if op == 0x76:
            # HALT: once halted the CPU keeps fetching (and ignoring) the byte after the HALT opcode
            return M(P(1), 4) if halted else M(pc, 4)
        if y != 6 and z != 6:
            return m1
        if idx is None:
            return M(pc, 4) + M(HL, 3)
        return m1 + M(P(2), 3) + M(P(2), 1, 5) + M(ea(), 3)
    if x == 2:
        if z != 6:
            return m1
        if idx is None:
            return M(pc, 4) + M(HL, 3)
        return m1 + M(P(2), 3) + M(P(2), 1, 5) + M(ea(), 3)
    # x == 3
    if z == 0:
        return M(pc, 4) + M(IR, 1) + (M(SP, 3) + M(SP + 1, 3) if cond(y) else [])
    if z == 1:
        if q == 0:
            return m1 + M(SP, 3) + M(SP + 1, 3)
        if p == 0:
            return M(pc, 4) + M(SP, 3) + M(SP + 1, 3)
        if p == 1:
            return M(pc, 4)
        if p == 2:
            return m1
        return m1 + M(IR, 1, 2)
    if z == 2:
        return M(pc, 4) + M(P(1), 3) + M(P(2), 3)
    if z == 3:
        if y == 0:
            return M(pc, 4) + M(P(1), 3) + M(P(2), 3)
        if y in (2, 3):
            return M(pc, 4) + M(P(1), 3) + [('IO', rd(P(1)) + 256 * A)]
        if y == 4:
            return m1 + M(SP, 3) + M(SP + 1, 3) + M(SP + 1, 1) + M(SP + 1, 3) + M(SP, 3) + M(SP, 1, 2)
        return M(pc, 4)
    if z == 4:
        return M(pc, 4) + M(P(1), 3) + M(P(2), 3) + (M(P(2), 1) + M(SP - 1, 3) + M(SP - 2, 3) if cond(y) else [])
    if z == 5:
        if q == 0:
            return m1 + M(IR, 1) + M(SP - 1, 3) + M(SP - 2, 3)
        return M(pc, 4) + M(P(1), 3) + M(P(2), 3) + M(P(2), 1) + M(SP - 1, 3) + M(SP - 2, 3)
    if z == 6:
        return M(pc, 4) + M(P(1), 3)
    return M(pc, 4) + M(IR, 1) + M(SP - 1, 3) + M(SP - 2, 3)


def uses_hl(op):
    """Does the unprefixed opcode name HL, H, L or (HL) in a way DD/FD changes?"""
    x, y, z = op >> 6, (op >> 3) & 7, op & 7
    p, q = y >> 1, y & 1
    if x == 0:
        if z == 1:
            return q == 1 or p == 2
        if z in (2, 3):
            return p == 2
        if z in (4, 5, 6):
            return y in (4, 5, 6)
        return False
    if x == 1:
        return op != 0x76 and (y in (4, 5, 6) or z in (4, 5, 6))
    if x == 2:
        return z in (4, 5, 6)
    if z == 1:
        return p == 2 if q == 0 else p in (2, 3)
    if z == 3:
        return y == 4
    if z == 5:
        return q == 0 and p == 2
    return False


def ed_page(rd, regs, pc, otir):
    A, F, B, C, D, E, H, L = regs[:8]
    SP, I, R = regs[12], regs[14], regs[15]
    BC, DE, HL = C + 256 * B, E + 256 * D, L + 256 * H
    IR = R + 256 * I

    def P(k):
        return (pc + k) & 0xFFFF

    def M(a, n, k=1):
        return [('M', a & 0xFFFF, n)] * k

    op = rd(P(1))
    x, y, z = op >> 6, (op >> 3) & 7, op & 7
    m1 = M(pc, 4) + M(P(1), 4)
    if x == 1:
        if z in (0, 1):
            return m1 + [('IO', BC)]
        if z == 2:
            return m1 + M(IR, 1, 7)
        if z == 3:
            nn = rd(P(2)) + 256 * rd(P(3))
            return m1 + M(P(2), 3) + M(P(3), 3) + M(nn, 3) + M(nn + 1, 3)
        if z in (4, 6):
            return m1
        if z == 5:
            return m1 + M(SP, 3) + M(SP + 1, 3)
        if y < 4:
            return m1 + M(IR, 1)
        if y < 6:
            return m1 + M(HL, 3) + M(HL, 1, 4) + M(HL, 3)
        return m1
    if x == 2 and z <= 3 and y >= 4:
        rep = y >= 6
        if z == 0:       # LDI LDD LDIR LDDR
            again = rep and (BC - 1) & 0xFFFF != 0
            return m1 + M(HL, 3) + M(DE, 3) + M(DE, 1, 2) + (M(DE, 1, 5) if again else [])
        if z == 1:       # CPI CPD CPIR CPDR
            again = rep and (BC - 1) & 0xFFFF != 0 and A != rd(HL)
            return m1 + M(HL, 3) + M(HL, 1, 5) + (M(HL, 1, 5) if again else [])
        again = rep and (B - 1) & 0xFF != 0
        if z == 2:       # INI IND INIR INDR: the port is read before B is decremented
            return m1 + M(IR, 1) + [('IO', BC)] + M(HL, 3) + (M(HL, 1, 5) if again else [])
        # OUTI OUTD OTIR OTDR: B is decremented before the port address is formed
        bc_after = C + 256 * ((B - 1) & 0xFF)
        tail = bc_after if otir == 'post' else BC
        return m1 + M(IR, 1) + M(HL, 3) + [('IO', bc_after)] + (M(tail, 1, 5) if again else [])
    return m1
