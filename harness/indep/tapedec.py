"""Independent tape machinery for C11 (stdlib only, no skoolkit imports).

Written from the TAP / TZX 1.20 / PZX 1.0 format documents:

* a *logical tape* is a list of items
    ('tone', count, duration) | ('pulses', [durations]) |
    ('data', bytes, used_bits, s0, s1, tail) | ('pause', tstates)
* writers that express a logical tape as TZX or PZX bytes (and ROM-timed blocks as TAP);
* `reference_edges`: the edge times the logical tape specifies, computed by a plain
  running sum (no merging, no tables);
* `decode_edges`: recover bytes from edge times by measuring the distances between
  consecutive edges and classifying them against the two bit sequences;
* independent TAP and PZX readers (byte blocks only) to cross-check the real parsers.
"""

ROM_PULSES = {True: 8063, False: 3223}


def w16(n):
    assert 0 <= n < 65536, n
    return [n & 255, n >> 8]


def w24(n):
    assert 0 <= n < 1 << 24, n
    return [n & 255, (n >> 8) & 255, n >> 16]


def w32(n):
    assert 0 <= n < 1 << 32, n
    return [n & 255, (n >> 8) & 255, (n >> 16) & 255, n >> 24]


# ---------------------------------------------------------------- logical tapes

def rom_block(data, pause=3500000):
    """The items of a standard-speed block (ROM saver timings)."""
    return [('tone', ROM_PULSES[data[0] == 0], 2168), ('pulses', [667, 735]),
            ('data', list(data), 8, [855, 855], [1710, 1710], 0), ('pause', pause)]


def bits_of(data, used_bits):
    """MSB-first bits of a block: 8 per byte, `used_bits` of the last byte."""
    out = []
    for n, b in enumerate(data):
        k = 8 if n < len(data) - 1 else used_bits
        for j in range(k):
            out.append((b >> (7 - j)) & 1)
    return out


def item_pulses(item):
    """The pulse durations one item specifies (pauses specify none)."""
    kind = item[0]
    if kind == 'tone':
        return [item[2]] * item[1]
    if kind == 'pulses':
        return list(item[1])
    if kind == 'data':
        _, data, used, s0, s1, tail = item
        out = []
        for bit in bits_of(data, used):
            out.extend(s1 if bit else s0)
        if tail:
            out.append(tail)
        return out
    return []


def reference_edges(items, first_edge=0, last_pause=False):
    """Edge times of a logical tape.  An edge at `first_edge` starts the first pulse; every
    pulse ends with an edge; a pause moves the clock without an edge (the pause of the last
    item is not played)."""
    t = first_edge
    edges = [t]
    for n, item in enumerate(items):
        if item[0] == 'pause':
            if n < len(items) - 1 or last_pause:
                t += item[1]
            continue
        for d in item_pulses(item):
            t += d
            edges.append(t)
    return edges


def reference_data_ranges(items):
    """(start, end) edge indexes of every data item: `start` is the index of the edge
    the first data pulse is measured from, `end` the index of the last edge of the item."""
    idx = 0
    out = []
    for item in items:
        n = len(item_pulses(item))
        if item[0] == 'data':
            out.append((idx, idx + n))
        idx += n
    return out


# ---------------------------------------------------------------- decoding

def decode_edges(edges, t0, s0, s1, nbits):
    """Measure distances between consecutive edges (the first from `t0`) and classify them
    against the two pulse sequences.  Returns the list of bits, or None if the pulses do not
    form `nbits` bits."""
    ds = []
    prev = t0
    for e in edges:
        ds.append(e - prev)
        prev = e
    bits = []
    i = 0
    s0, s1 = list(s0), list(s1)
    while len(bits) < nbits:
        if s0 and ds[i:i + len(s0)] == s0:
            bits.append(0)
            i += len(s0)
        elif s1 and ds[i:i + len(s1)] == s1:
            bits.append(1)
            i += len(s1)
        else:
            return None
    return bits, ds[i:]


def pack_bits(bits):
    out = []
    for i in range(0, len(bits), 8):
        chunk = bits[i:i + 8]
        v = 0
        for b in chunk:
            v = (v << 1) | b
        v <<= 8 - len(chunk)
        out.append(v)
    return out


def prefix_free(s0, s1):
    s0, s1 = list(s0), list(s1)
    return bool(s0) and bool(s1) and s0 != s1[:len(s0)] and s1 != s0[:len(s1)]


# ---------------------------------------------------------------- writers

def tap_bytes(blocks):
    out = []
    for d in blocks:
        out += w16(len(d)) + list(d)
    return out


TZX_HEADER = list(b'ZXTape!\x1a') + [1, 20]


def tzx_standard(data, pause_ms=1000):
    return [0x10] + w16(pause_ms) + w16(len(data)) + list(data)


def tzx_turbo(pilot, sync1, sync2, zero, one, pilot_len, used_bits, pause_ms, data):
    return ([0x11] + w16(pilot) + w16(sync1) + w16(sync2) + w16(zero) + w16(one) + w16(pilot_len)
            + [used_bits] + w16(pause_ms) + w24(len(data)) + list(data))


def tzx_tone(duration, count):
    return [0x12] + w16(duration) + w16(count)


def tzx_pulses(durations):
    assert len(durations) < 256
    out = [0x13, len(durations)]
    for d in durations:
        out += w16(d)
    return out


def tzx_pure_data(zero, one, used_bits, pause_ms, data):
    return [0x14] + w16(zero) + w16(one) + [used_bits] + w16(pause_ms) + w24(len(data)) + list(data)


def tzx_direct(tps, pause_ms, used_bits, samples):
    return [0x15] + w16(tps) + w16(pause_ms) + [used_bits] + w24(len(samples)) + list(samples)


def tzx_pause(ms):
    return [0x20] + w16(ms)


def tzx_group_start(text):
    return [0x21, len(text)] + list(text)


def tzx_group_end():
    return [0x22]


def tzx_loop_start(n):
    return [0x24] + w16(n)


def tzx_loop_end():
    return [0x25]


def tzx_text(text):
    return [0x30, len(text)] + list(text)


def tzx_archive_info(strings):
    body = [len(strings)]
    for ident, text in strings:
        body += [ident, len(text)] + list(text)
    return [0x32] + w16(len(body)) + body


def tzx_from_items(items, split=False):
    """Express a logical tape as TZX.  `split=False`: tone+2 pulses+data(+pause) groups become
    turbo blocks (0x11) where possible; `split=True`: every item becomes its own block
    (0x12 / 0x13 / 0x14 / 0x20).  Pauses must be whole milliseconds; bit sequences must be
    (z, z) / (o, o); tails are not expressible."""
    out = list(TZX_HEADER)
    i = 0
    while i < len(items):
        it = items[i]
        if (not split and it[0] == 'tone' and i + 2 < len(items) and items[i + 1][0] == 'pulses'
                and len(items[i + 1][1]) == 2 and items[i + 2][0] == 'data'):
            _, data, used, s0, s1, tail = items[i + 2]
            assert tail == 0 and s0[0] == s0[1] and s1[0] == s1[1]
            pause = 0
            step = 3
            if i + 3 < len(items) and items[i + 3][0] == 'pause':
                pause = items[i + 3][1]
                step = 4
            assert pause % 3500 == 0
            out += tzx_turbo(it[2], items[i + 1][1][0], items[i + 1][1][1], s0[0], s1[0], it[1], used,
                             pause // 3500, data)
            i += step
            continue
        if it[0] == 'tone':
            out += tzx_tone(it[2], it[1])
        elif it[0] == 'pulses':
            out += tzx_pulses(it[1])
        elif it[0] == 'data':
            _, data, used, s0, s1, tail = it
            assert tail == 0 and s0[0] == s0[1] and s1[0] == s1[1]
            pause = 0
            if i + 1 < len(items) and items[i + 1][0] == 'pause':
                pause = items[i + 1][1]
                i += 1
            assert pause % 3500 == 0
            out += tzx_pure_data(s0[0], s1[0], used, pause // 3500, data)
        elif it[0] == 'pause':
            assert it[1] % 3500 == 0 and it[1] > 0
            out += tzx_pause(it[1] // 3500)
        i += 1
    return out


def pzx_puls_body(pulses):
    """PULS body for (count, duration) entries (PZX 1.0: the count word is required when the
    duration does not fit in 16 bits)."""
    body = []
    for c, d in pulses:
        assert 1 <= c < 0x8000 and 0 <= d < 1 << 31
        if c != 1 or d >= 0x10000:
            body += w16(0x8000 | c)
        if d < 0x8000:
            body += w16(d)
        else:
            body += w16(0x8000 | (d >> 16)) + w16(d & 0xFFFF)
    return body


def pzx_block(tag, body):
    return list(tag) + w32(len(body)) + list(body)


def pzx_from_items(items, first_level=0):
    """Express a logical tape as PZX with initial levels that agree with the running level
    (so that no level correction is needed)."""
    out = pzx_block(b'PZXT', [1, 0])
    level = first_level
    for it in items:
        if it[0] in ('tone', 'pulses'):
            pulses = [(it[1], it[2])] if it[0] == 'tone' else [(1, d) for d in it[1]]
            pulses = [p for p in pulses if p[0] > 0]
            n = sum(c for c, _ in pulses)
            if not pulses:
                continue
            if level:
                pulses = [(1, 0)] + pulses      # PULS starts low: a zero pulse makes it start high
            out += pzx_block(b'PULS', pzx_puls_body(pulses))
            level = (level + n) % 2
        elif it[0] == 'data':
            _, data, used, s0, s1, tail = it
            nbits = max(0, 8 * (len(data) - 1) + used) if data else 0
            body = w32((level << 31) | nbits) + w16(tail) + [len(s0), len(s1)]
            for d in list(s0) + list(s1):
                body += w16(d)
            body += list(data)
            out += pzx_block(b'DATA', body)
            n = len(item_pulses(it))
            level = (level + n) % 2
        elif it[0] == 'pause':
            out += pzx_block(b'PAUS', w32((level << 31) | it[1]))
    return out


# ---------------------------------------------------------------- independent readers

def read_tap(data):
    """Blocks of a well-formed TAP file."""
    data = list(data)
    blocks = []
    i = 0
    while i + 2 <= len(data):
        n = data[i] | (data[i + 1] << 8)
        blocks.append(data[i + 2:i + 2 + n])
        i += 2 + n
    return blocks


def read_pzx_data(data):
    """[(bytes, used_bits, s0, s1, tail, level)] of the DATA blocks of a well-formed PZX file."""
    data = list(data)
    assert data[:4] == list(b'PZXT')
    out = []
    i = 0
    while i + 8 <= len(data):
        tag = bytes(data[i:i + 4])
        n = data[i + 4] | (data[i + 5] << 8) | (data[i + 6] << 16) | (data[i + 7] << 24)
        body = data[i + 8:i + 8 + n]
        if tag == b'DATA':
            count = body[0] | (body[1] << 8) | (body[2] << 16) | (body[3] << 24)
            nbits = count & 0x7FFFFFFF
            tail = body[4] | (body[5] << 8)
            p0, p1 = body[6], body[7]
            k = 8
            s0 = [body[k + 2 * j] | (body[k + 2 * j + 1] << 8) for j in range(p0)]
            k += 2 * p0
            s1 = [body[k + 2 * j] | (body[k + 2 * j + 1] << 8) for j in range(p1)]
            k += 2 * p1
            nbytes = (nbits + 7) // 8
            out.append((body[k:k + nbytes], nbits % 8 or 8, s0, s1, tail, count >> 31))
        i += 8 + n
    return out


def direct_recording_pulses(samples, used_bits, tps):
    """Run lengths of a TZX direct-recording block (0x15) as pulse durations; a leading
    zero-length pulse when the first sample is high (the recording starts from low)."""
    bits = bits_of(samples, used_bits)
    if not bits:
        return None
    pulses = []
    if bits[0]:
        pulses.append(0)
    run = 0
    prev = bits[0]
    for b in bits:
        if b == prev:
            run += 1
        else:
            pulses.append(run * tps)
            prev = b
            run = 1
    pulses.append(run * tps)
    return pulses


# ---------------------------------------------------------------- PZX blocks with explicit levels

def pzx_from_blocks(blocks):
    """PZX bytes for  ('PULS', [(count, duration), ...]) | ('DATA', level, bytes, used_bits, s0, s1, tail)
    | ('PAUS', level, duration)  with the levels exactly as given (they need not agree with the
    running level: the format then requires a level change at the start of the block)."""
    out = pzx_block(b'PZXT', [1, 0])
    for b in blocks:
        if b[0] == 'PULS':
            out += pzx_block(b'PULS', pzx_puls_body_raw(b[1]))
        elif b[0] == 'DATA':
            _, level, data, used, s0, s1, tail = b
            nbits = 8 * (len(data) - 1) + used
            body = w32((level << 31) | nbits) + w16(tail) + [len(s0), len(s1)]
            for d in list(s0) + list(s1):
                body += w16(d)
            out += pzx_block(b'DATA', body + list(data))
        else:
            out += pzx_block(b'PAUS', w32((b[1] << 31) | b[2]))
    return out


def pzx_puls_body_raw(pulses):
    """Like pzx_puls_body but a zero duration is allowed with any count (the count word is written
    whenever the count is not 1)."""
    body = []
    for c, d in pulses:
        assert 1 <= c < 0x8000 and 0 <= d < 1 << 31
        if c != 1 or d >= 0x10000:
            body += w16(0x8000 | c)
        if d < 0x8000:
            body += w16(d)
        else:
            body += w16(0x8000 | (d >> 16)) + w16(d & 0xFFFF)
    return body


def pzx_level_changes(blocks, first_edge=0):
    """Times at which the signal level changes, from the PZX 1.0 text alone: the level is low before the
    tape starts; a PULS block starts low, DATA and PAUS blocks start at their stated level (a change at
    the block start if the running level differs); every pulse - of zero duration too - ends with a
    change; a pause holds its level.  Two changes at the same time cancel.  Returns (changes, t_end)."""
    t = first_edge
    level = 0
    ch = []

    def start(lv):
        nonlocal level
        if level != lv:
            ch.append(t)
            level = lv

    def pulse(d):
        nonlocal t, level
        t += d
        ch.append(t)
        level ^= 1

    for b in blocks:
        if b[0] == 'PULS':
            start(0)
            for c, d in b[1]:
                for _ in range(c):
                    pulse(d)
        elif b[0] == 'DATA':
            _, lv, data, used, s0, s1, tail = b
            start(lv)
            for bit in bits_of(data, used):
                for d in (s1 if bit else s0):
                    pulse(d)
            if tail:
                pulse(tail)
        else:
            start(b[1])
            t += b[2]
    out = []
    for e in ch:
        if out and out[-1] == e:
            out.pop()
        else:
            out.append(e)
    return out, t
