"""What bin2sna.py / snapmod.py options are documented to do, applied to a decoded snapshot.

Written from the manual pages (sphinx/source/man/snapmod.py.rst, bin2sna.py.rst, tap2sna.py.rst
sections MOVE/PATCH/POKE OPERATIONS, `--reg help`, `--state help`) and the Z80 / ZX-State format
descriptions -- not from skoolkit/snapshot.py.

A machine state is the dict returned by indep.snapdec.decode_z80 / decode_szx:
  registers a f bc de hl a2 f2 bc2 de2 hl2 ix iy sp pc i r (memptr: SZX only)
  state border iff1 iff2 im tstates issue2 out7ffd outfffd ay outfe(SZX)
  banks {n: [16384 bytes]}  (48K: banks 5, 2, 0 are 0x4000, 0x8000, 0xC000)
"""

FRAME = {'48K': 69888, '128K': 70908, '+2': 70908}
REG8 = {'a': ('a', None), 'f': ('f', None), 'b': ('bc', 1), 'c': ('bc', 0), 'd': ('de', 1), 'e': ('de', 0),
        'h': ('hl', 1), 'l': ('hl', 0), 'i': ('i', None), 'r': ('r', None),
        '^a': ('a2', None), '^f': ('f2', None), '^b': ('bc2', 1), '^c': ('bc2', 0), '^d': ('de2', 1),
        '^e': ('de2', 0), '^h': ('hl2', 1), '^l': ('hl2', 0)}
REG16 = {'bc': 'bc', 'de': 'de', 'hl': 'hl', 'ix': 'ix', 'iy': 'iy', 'sp': 'sp', 'pc': 'pc',
         '^bc': 'bc2', '^de': 'de2', '^hl': 'hl2', 'memptr': 'memptr'}
ALL_REGS = sorted(REG8) + sorted(REG16)


def num(s):
    """'a decimal number, or a hexadecimal number prefixed by 0x'"""
    s = s.strip()
    if s.lower().startswith('0x'):
        return int(s[2:], 16)
    return int(s, 10)


def is128(st):
    return st['machine'] != '48K'


def window_bank(st, addr):
    """RAM bank (as named in st['banks']) and offset of an address of the 64K address space."""
    q, off = divmod(addr, 16384)
    if q == 0:
        return None, off                     # ROM
    if q == 1:
        return 5, off
    if q == 2:
        return 2, off
    return (st.get('out7ffd', 0) & 7 if is128(st) else 0), off


def apply_reg(st, spec):
    name, _, val = spec.partition('=')
    name = name.lower()
    v = num(val)
    if name in REG8:
        key, half = REG8[name]
        if half is None:
            st[key] = v & 0xFF
        elif half == 0:
            st[key] = (st[key] & 0xFF00) | (v & 0xFF)
        else:
            st[key] = (st[key] & 0x00FF) | ((v & 0xFF) << 8)
        return [key]
    key = REG16[name]
    if key == 'memptr' and 'memptr' not in st:
        return []                            # the Z80 format has no MEMPTR field
    st[key] = v & 0xFFFF
    return [key]


def apply_state(st, spec, fmt):
    name, _, val = spec.partition('=')
    name = name.lower()
    v = num(val)
    if name == 'border':
        st['border'] = v & 7
        return ['border']
    if name == 'iff':
        st['iff1'] = st['iff2'] = v & 0xFF
        return ['iff1', 'iff2']
    if name == 'im':
        st['im'] = v & 3
        return ['im']
    if name == 'issue2':
        if 'issue2' in st:
            st['issue2'] = v & 1
        return ['issue2']
    if name == 'tstates':
        if 'tstates' in st:                  # Z80 versions 1 and 2 have no T-state counter
            st['tstates'] = v % FRAME[st['machine']]
        return ['tstates']
    if name == 'fe':
        if fmt == 'szx':
            st['outfe'] = v & 0xFF
        return ['outfe']
    if name == '7ffd':
        if 'out7ffd' in st:
            st['out7ffd'] = v & 0xFF
        return ['out7ffd']
    if name == 'fffd':
        if 'outfffd' in st:
            st['outfffd'] = v & 0xFF
        return ['outfffd']
    if name.startswith('ay[') and name.endswith(']'):
        if 'ay' in st:
            n = num(name[3:-1]) & 15
            ay = list(st['ay'])
            ay[n] = v & 0xFF
            st['ay'] = tuple(ay)
        return ['ay']
    raise ValueError(spec)


def _split_bank(s):
    if ':' in s:
        p, _, rest = s.partition(':')
        return num(p), rest
    return None, s


def _cell(st, bank, addr):
    """(bank list, index) an address designates; bank None = address space. None when nothing is there."""
    if bank is None:
        if addr > 0xFFFF:
            raise IndexError(addr)
        b, off = window_bank(st, addr)
        if b is None:
            return None
        return st['banks'][b], off
    if not is128(st):
        return None                          # 'P is the RAM bank to POKE (0-7; 128K only)'
    return st['banks'][bank & 7], addr & 0x3FFF


def apply_poke(st, spec):
    """POKE N,v in RAM bank p for N in {a, a+c, a+2c..., b}; '^' = XOR, '+' = ADD."""
    addr, _, val = spec.partition(',')
    bank, addr = _split_bank(addr)
    parts = [num(x) for x in addr.split('-')]
    a = parts[0]
    b = parts[1] if len(parts) > 1 else a
    c = parts[2] if len(parts) > 2 else 1
    if val[0] == '^':
        f = lambda x, v=num(val[1:]): x ^ v            # noqa
    elif val[0] == '+':
        f = lambda x, v=num(val[1:]): (x + v) & 0xFF   # noqa
    else:
        f = lambda x, v=num(val): v                    # noqa
    n = a
    while n <= b:
        cell = _cell(st, bank, n)
        if cell is not None:
            cell[0][cell[1]] = f(cell[0][cell[1]])
        n += c


def apply_move(st, spec):
    """Copy a block of bytes of the given size from src in RAM bank s to dest in RAM bank d.
    A block named inside a bank ends at the end of that bank at the latest (as for --patch)."""
    src, size, dest = spec.split(',')
    sbank, src = _split_bank(src)
    dbank, dest = _split_bank(dest)
    if dbank is None:
        dbank = sbank
    src, size, dest = num(src), num(size), num(dest)
    if sbank is not None:
        size = min(size, 16384 - (src & 0x3FFF))
    if dbank is not None:
        size = min(size, 16384 - (dest & 0x3FFF))
    data = []
    for i in range(size):
        cell = _cell(st, sbank, src + i)
        if cell is None and sbank is not None:
            return                           # 128K only
        data.append(0 if cell is None else cell[0][cell[1]])
    for i, v in enumerate(data):
        cell = _cell(st, dbank, dest + i)
        if cell is not None:
            cell[0][cell[1]] = v


def apply_patch(st, spec, data):
    """Apply a binary patch file at address a in RAM bank p (within the bank: cut at its end)."""
    addr, _, _fname = spec.partition(',')
    bank, addr = _split_bank(addr)
    a = num(addr)
    if bank is not None:
        data = data[:16384 - (a & 0x3FFF)]
    for i, v in enumerate(data):
        cell = _cell(st, bank, a + i)
        if cell is not None:
            cell[0][cell[1]] = v


def copy_state(st):
    new = dict(st)
    new['banks'] = {k: list(v) for k, v in st['banks'].items()}
    return new


COMPARED = ('machine', 'a', 'f', 'bc', 'de', 'hl', 'a2', 'f2', 'bc2', 'de2', 'hl2', 'ix', 'iy', 'sp', 'pc', 'i', 'r',
            'memptr', 'border', 'iff1', 'iff2', 'im', 'tstates', 'issue2', 'out7ffd', 'outfffd', 'ay', 'outfe')


def diff_states(exp, got):
    """All differences between two decoded states: list of (field, expected, got)."""
    out = []
    for k in COMPARED:
        if k in exp or k in got:
            if exp.get(k) != got.get(k):
                out.append((k, exp.get(k), got.get(k)))
    eb, gb = exp['banks'], got['banks']
    for b in sorted(set(eb) | set(gb)):
        x, y = eb.get(b), gb.get(b)
        if x != y:
            if x is None or y is None or len(x) != len(y):
                out.append((f'bank{b}', 'absent' if x is None else f'{len(x)} bytes', 'absent' if y is None else f'{len(y)} bytes'))
            else:
                idx = [i for i in range(len(x)) if x[i] != y[i]]
                out.append((f'bank{b}', {i: x[i] for i in idx[:6]}, {i: y[i] for i in idx[:6]}))
    return out
