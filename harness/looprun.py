"""Tie of the LOOP translations (translate/pyloop2lean.py, translate/cloop2lean.py) to the real code, on every run (C06).

* `regen_loops(chk)`: re-translates `Simulator.run` / `accept_interrupt` (simulator.py, cmiosimulator.py) and
  `CSimulator_run` (c/csimulator.c, both builds) into `Gen/PyLoops.lean`, `Gen/CLoops/*.lean`, `Gen/CCmioLoops/*.lean`;
  an unsupported construct or a changed boilerplate idiom is a translator break.
* `loop_correspondence(chk, classes)`: whole calls `run(start, stop, interrupts)` of the REAL `Simulator`, `CMIOSimulator`,
  `CSimulator`, `CCMIOSimulator` on generated terminating programs (DJNZ loops with EI/DI/HALT/IM 0-2, IN/OUT, handlers at 0x38 and
  behind an IM 2 vector; frame layouts 69888/32, 70908/36 and short frames, so that many interrupts fall due; every argument
  shape incl. omitted `start`/`stop`/`interrupts`) against the translated loops run by `Drivers/Loops.lean`: all 30 register slots,
  the final memory, the port logs and the "finished" flag.
* `loop_property(chk, classes)`: the property itself on the same call shapes, Python vs C on the real classes; the one shape on
  which the real functions differ (`run(start, interrupts=True)` without `stop`: Props/C06 `c_run_loop_full_false`) is probed
  deterministically and raised only under its own key once the integrator has listed it."""
import importlib
import os
import sys

import framework
import simcorr
from framework import VERIF, REPO, LeanLock

sys.path.insert(0, os.path.join(VERIF, 'translate'))

import contextlib
import signal

NOSTOP_KEY = 'run-without-stop-accepts-interrupt-in-c'
REAL_TIMEOUT = 20


class RealLoopTimeout(Exception):
    pass


@contextlib.contextmanager
def time_limit(seconds=REAL_TIMEOUT):
    """a real loop that does not end (a changed stop test, ...) must not hang the check: the alarm interrupts the Python loops and the C
    loops that poll signals (CHECK_SIGNALS); the case is then reported as a difference"""
    def on_alarm(signum, frame):
        raise RealLoopTimeout(f'no result after {seconds} s')
    try:
        old = signal.signal(signal.SIGALRM, on_alarm)
    except ValueError:          # not in the main thread
        yield
        return
    signal.alarm(seconds)
    try:
        yield
    finally:
        signal.alarm(0)
        signal.signal(signal.SIGALRM, old)

GEN_SUBDIRS = ('CLoops', 'CCmioLoops')
FUEL = 20000
SAFE = ([0x00, 0x3C, 0x3D, 0x0C, 0x0D, 0x14, 0x15, 0x1C, 0x1D, 0x24, 0x25, 0x2C, 0x2D, 0x13, 0x1B, 0x23, 0x2B, 0x07, 0x0F, 0x17,
         0x1F, 0x27, 0x2F, 0x37, 0x3F, 0x08, 0xEB, 0xFB, 0xF3, 0xFB]
        + [b for b in range(0x48, 0x70) if b != 0x76] + [0x78, 0x79, 0x7A, 0x7B, 0x7C, 0x7D, 0x7E, 0x7F] + list(range(0x80, 0xC0)))
FRAMES = ((69888, 32), (69888, 32), (70908, 36), (1000, 50), (300, 40), (4000, 1))


def regen_loops(chk):
    for name in ('py2lean', 'c2lean', 'pyloop2lean', 'cloop2lean'):
        if name in sys.modules:
            importlib.reload(sys.modules[name])
    import pyloop2lean
    import cloop2lean
    outputs = {}
    ok = True
    try:
        outputs['PyLoops.lean'] = pyloop2lean.gen(REPO)
    except Exception as e:
        chk.breaks.append({'kind': 'translator', 'name': 'simulator.py / cmiosimulator.py (run, accept_interrupt) -> Gen/PyLoops.lean',
                           'detail': f'{type(e).__name__}: {e}'})
        ok = False
    try:
        outputs['PyLoopCores.lean'] = pyloop2lean.gen_cores(REPO)
    except Exception as e:
        chk.breaks.append({'kind': 'translator', 'name': 'trace.py (Tracer.run loop) / rzxplay.py (process_block frame loop) -> Gen/PyLoopCores.lean',
                           'detail': f'{type(e).__name__}: {e}'})
        ok = False
    for label, cont in (('c/csimulator.c (plain) loops -> Gen/CLoops/*.lean', False),
                        ('c/csimulator.c (-DCONTENTION) loops -> Gen/CCmioLoops/*.lean', True)):
        try:
            outputs.update(cloop2lean.translate(REPO, cont))
        except Exception as e:
            chk.breaks.append({'kind': 'translator', 'name': label, 'detail': f'{type(e).__name__}: {e}'})
            ok = False
    changed = []
    with LeanLock():
        for fn, text in outputs.items():
            if chk.write_gen(os.path.join('SkoolVerif', 'Gen', fn), text):
                changed.append(fn)
        if ok:
            gen_dir = os.path.join(VERIF, 'lean', 'SkoolVerif', 'Gen')
            for sub in GEN_SUBDIRS:
                d = os.path.join(gen_dir, sub)
                for f in (os.listdir(d) if os.path.isdir(d) else ()):
                    if f.endswith('.lean') and f'{sub}/{f}' not in outputs:
                        os.remove(os.path.join(d, f))
                        changed.append(f'{sub}/{f} (removed)')
    if changed:
        chk.note('regenerated (loop source changed): ' + ', '.join(sorted(changed)))
    chk.extra['loop_generated_files'] = sorted(outputs)
    chk.extra['loop_generated_changed'] = sorted(changed)
    return ok


# ---- generated calls ------------------------------------------------------------------------------------------------

def gen_case(rng, n, cmio):
    """A terminating program and a call shape.  -> dict (JSON-able)"""
    body = []
    for _ in range(rng.randrange(2, 14)):
        k = rng.randrange(14)
        if k == 0:
            body += [0xDB, rng.randrange(256)]          # IN A,(n)
        elif k == 1:
            body += [0xD3, rng.randrange(256)]          # OUT (n),A
        elif k == 2:
            body += [0xED, rng.choice((0x57, 0x5F, 0x44))]     # LD A,I / LD A,R / NEG
        elif k == 3:
            body += rng.choice(([0xDD, 0xDD, 0x23], [0xFD, 0xDD, 0x2B], [0xDD, 0x00], [0xFD, 0xFD, 0xFB], [0xDD, 0xFB]))   # prefixes executed as one-byte no-ops
        elif k == 4:
            body += rng.choice(([0xE5, 0xE1], [0xF5, 0xF1], [0xD5, 0xD1]))     # PUSH rr; POP rr
        else:
            body.append(rng.choice(SAFE))
    frame, ia = (69888, 32) if cmio else rng.choice(FRAMES)
    count = rng.randrange(1, 40)
    ei = rng.choice((0xFB, 0xF3, 0xFB))
    interrupts = rng.choice((True, True, True, False, None))
    # HALT waits for the next interrupt, one pass per 4 T-states: only where that is a bounded number of passes
    halt = ei == 0xFB and interrupts is True and 0xF3 not in body and ia >= 4 and rng.random() < 0.5
    near_end = False
    if halt and frame > 4000:
        count, near_end = 1, True
    elif halt:
        count = rng.randrange(1, 5)
    im = rng.choice((0x46, 0x56, 0x5E))
    prog = [0x31, 0x00, 0xF0, ei, 0xED, im, 0x06, count] + body + ([0xFB, 0x76] if halt else []) + [0x10, 0]
    djnz_at = len(prog) - 2
    if djnz_at + 2 - 8 > 126:
        return gen_case(rng, n, cmio)
    prog[-1] = (8 - (djnz_at + 2)) & 0xFF
    base = rng.choice((0x8000, 0x8000, 0x7FF0, 0xC000, 0x5B00))
    stop = (base + len(prog)) % 65536
    mem = {}
    for k, b in enumerate(prog):
        mem[(base + k) % 65536] = b
    mem[0x38], mem[0x39], mem[0x3A] = 0x3C, 0xFB, 0xC9           # INC A; EI; RET
    mem[0xFEFF], mem[0xFF00] = 0x00, 0x90                          # IM 2 vector (I = 0xFE) -> 0x9000
    mem[0x9000], mem[0x9001], mem[0x9002], mem[0x9003] = 0x0C, 0xFB, 0xED, 0x4D      # INC C; EI; RETI
    t = rng.choice((0, frame - 40, frame - 4, 31, 32, ia - 1, ia, 14330, 2 * frame - 10, rng.randrange(3 * frame), (1 << 40) + rng.randrange(frame)))
    if near_end:
        t = frame * rng.randrange(1, 3) - rng.randrange(60, 600)
    shape = rng.randrange(10)
    regs = [rng.randrange(256) for _ in range(24)]
    regs[12], regs[13], regs[14] = rng.choice((0xF000, 0x4002, 0xFFFF, 0x0001)), 0, 0xFE
    fields = [base if shape == 0 else rng.randrange(65536), t, rng.randrange(2), rng.randrange(3), 0, rng.randrange(65536)]
    case = {'n': n, 'cmio': cmio, 'regs': regs, 'fields': fields, 'mem': {str(a): v for a, v in mem.items()}, 'frame': frame, 'ia': ia,
            'ins': [rng.randrange(256) for _ in range(8)], 'start': None if shape == 0 else base, 'stop': stop, 'end': stop, 'interrupts': interrupts}
    if shape == 1:
        # no stop address: one instruction (Python) / one pass (C)
        case['stop'] = None
        case['fields'][2] = 1
        case['fields'][1] = rng.choice((frame - 4, frame - 7, 0, max(0, ia - 4), ia, rng.randrange(frame)))
    return case


def cfg_of(case):
    return None if (case['frame'], case['ia']) == (69888, 32) else {'frame_duration': case['frame'], 'int_active': case['ia']}


def call_args(case, is_c):
    kw = {}
    if case['start'] is not None:
        kw['start'] = case['start']
    if case['stop'] is not None:
        kw['stop'] = case['stop']
    if case['interrupts'] is not None:
        kw['interrupts'] = case['interrupts']
    return kw


def real_run(cls, case, is_c):
    mem0 = [0] * 65536
    for a, v in case['mem'].items():
        mem0[int(a)] = v
    sim = cls(list(mem0), config=cfg_of(case))
    for i, v in enumerate(case['regs']):
        sim.registers[i] = v
    for i, v in enumerate(case['fields']):
        sim.registers[24 + i] = v
    tr = simcorr.Tracer(case['ins'])
    sim.set_tracer(tr)
    try:
        with time_limit():
            sim.run(**call_args(case, is_c))
    except Exception as e:
        return f'exception {type(e).__name__}: {e}'
    after = sim.memory
    diffs = [(a, after[a]) for a in range(65536) if after[a] != mem0[a]]
    r = list(sim.registers)
    outs = tr.out_log + [(-1, 1)]
    return (f"{' '.join(map(str, r[:24]))} ; {' '.join(map(str, r[24:30]))} ; "
            f"{' '.join(f'{p}:{v}' for p, v in outs)} ; {' '.join(map(str, tr.in_log))} ; "
            f"{' '.join(f'{a}:{v}' for a, v in diffs)} ; 0")


def op_of(case, sel):
    def w(x):
        return '-' if x is None else str(int(x))
    mem = {int(a): v for a, v in case['mem'].items()}
    t0, t1 = 14335 - 23, 57245
    return (f"{sel} {FUEL} {w(case['start'])} {w(case['stop'])} {w(case['interrupts'])} "
            + simcorr.op_line(case['regs'], case['fields'], mem, case['ins'], [1, 1, 1, 1], frame=case['frame'], int_active=case['ia'], t0=t0, t1=t1))


IMPLS = (('py-plain', 'pr', False, False), ('c-plain', 'cr', False, True), ('py-cmio', 'pc', True, False), ('c-cmio', 'cc', True, True))


def loop_correspondence(chk, classes, batch=None):
    rng = chk.rng
    cls = dict(classes)
    ops, outs, mems = [], [], []
    n = chk.scale(50, 900)
    for k in range(n):
        for cmio in (False, True):
            case = gen_case(rng, k, cmio)
            for name, sel, c, is_c in IMPLS:
                if c != cmio:
                    continue
                ops.append(op_of(case, sel))
                outs.append(real_run(cls[name], case, is_c))
                mems.append({int(a): v for a, v in case['mem'].items()})
                chk.case(f'loop-run:{name}', ('loop', name, k, cmio, case['frame'], case['interrupts'], case['stop'] is None),
                         {'impl': name, 'call': call_args(case, is_c), 'frame': [case['frame'], case['ia']], 't': case['fields'][1]} if k < 2 and not is_c else None)
    finish_batch(chk, batch, 'real run(start, stop, interrupts) of the four simulators vs the translated loops (Drivers/Loops)', ops,
                 [simcorr.norm(a) for a in outs], mems, canon_run)


def nostop_probe(classes):
    """`run(start, interrupts=True)` without `stop`, NOP at the end of a frame with IFF = 1.  -> {impl: [PC, T, IFF]}"""
    res = {}
    for name, cls in classes:
        mem = [0] * 65536
        sim = cls(mem, {'SP': 0xF000}, {'iff': 1, 'im': 1, 'tstates': 69888 - 4})
        sim.run(0x8000, interrupts=True)
        res[name] = [sim.registers[24], sim.registers[25], sim.registers[26]]
    return res


def loop_property(chk, classes):
    rng = chk.rng
    cls = dict(classes)
    for k in range(chk.scale(300, 6000)):
        for cmio in (False, True):
            case = gen_case(rng, k, cmio)
            if case['stop'] is None and case['interrupts']:
                continue        # the known difference: probed below
            a, b = ('py-cmio', 'c-cmio') if cmio else ('py-plain', 'c-plain')
            x, y = real_run(cls[a], case, False), real_run(cls[b], case, True)
            chk.case(f'loop-pair:{a}', ('looppair', a, k, case['frame'], case['interrupts'], case['stop'] is None))
            if x != y:
                chk.violation(f'{a}-vs-{b}:run-loop', f'{a} vs {b}: run({call_args(case, False)}) ends in different states: {x[:300]} vs {y[:300]}',
                              {'kind': 'looprun', 'pair': [a, b], 'case': case})
    res = nostop_probe(classes)
    chk.extra['run_without_stop_interrupts'] = res
    chk.case('nostop-probe', ('nostop-probe',), {'run(0x8000, interrupts=True), NOP at T = frame - 4, IFF = 1: [PC, T, IFF]': res})
    differs = res.get('py-plain') != res.get('c-plain') or res.get('py-cmio') != res.get('c-cmio')
    if differs and NOSTOP_KEY in framework.load_known(chk.pid):
        chk.violation(NOSTOP_KEY, 'run(start, interrupts=True) without stop: CSimulator/CCMIOSimulator accept the interrupt after the one '
                      f'instruction, Simulator/CMIOSimulator do not: [PC, T, IFF] = {res}', {'kind': 'nostop'})
    elif differs:
        chk.note(f'known difference (not raised: key {NOSTOP_KEY} is not listed in KNOWN_FINDINGS.txt): run(start, interrupts=True) without '
                 f'stop accepts the interrupt in C only: {res}')


# ---- CSimulator_trace / CSimulator_exec_frame: the real C functions vs their translation ----------------------------------

def finish_batch(chk, batch, label, ops, outs, mems, canon):
    """run the driver now (batch is None) or queue the comparison for `flush` (one driver start for several comparisons)"""
    if batch is not None:
        batch.append((label, ops, outs, mems, canon))
        return
    model = chk.run_driver('Loops', ops)
    if model is not None:
        chk.compare(label, ops, outs, [canon(b, m) for b, m in zip(model, mems)])


def flush(chk, batch):
    ops = [o for _, o, _, _, _ in batch for o in o]
    if not ops:
        return
    model = chk.run_driver('Loops', ops)
    if model is None:
        return
    k = 0
    for label, o, outs, mems, canon in batch:
        part = model[k:k + len(o)]
        k += len(o)
        chk.compare(label, o, outs, [canon(b, m) for b, m in zip(part, mems)])


def canon_run(line, mem):
    return simcorr.norm(simcorr.final_diff(line, mem))


class TraceTracer(simcorr.Tracer):
    border = 7


def canon_model(line, mem):
    """model output line -> 'state | ret | callbacks | exec_map'"""
    line = simcorr.final_diff(line, mem)
    parts = line.split(';')
    if len(parts) != 6:
        return line
    real, pseudo = [], []
    for w in parts[2].split():
        p, v = w.split(':')
        (pseudo if int(p) < 0 else real).append((int(p), int(v)))
    parts[2] = ' ' + ' '.join(f'{p}:{v}' for p, v in real) + ' '
    ret = {p: v for p, v in pseudo if p in (-1, -2, -3)}
    calls, cur = [], None
    for p, v in pseudo:
        if p <= -10:
            cur = [-p - 10, v]
            calls.append(cur)
        elif p == -9 and cur is not None:
            cur.append(v)
    cbs = [tuple(c) for c in calls if c[0] in (0, 1)]
    emap = sorted({c[1] for c in calls if c[0] == 2})
    return simcorr.norm(';'.join(parts)) + f' | done={ret.get(-1)} ret={ret.get(-2)},{ret.get(-3)} | {cbs} | {emap}'


def state_line(sim, mem0, tr):
    after = sim.memory
    diffs = [(a, after[a]) for a in range(65536) if after[a] != mem0[a]]
    r = list(sim.registers)
    return simcorr.norm(f"{' '.join(map(str, r[:24]))} ; {' '.join(map(str, r[24:30]))} ; "
                        f"{' '.join(f'{p}:{v}' for p, v in tr.out_log)} ; {' '.join(map(str, tr.in_log))} ; "
                        f"{' '.join(f'{a}:{v}' for a, v in diffs)} ; 0")


def setup(cls, case):
    mem0 = [0] * 65536
    for a, v in case['mem'].items():
        mem0[int(a)] = v
    sim = cls(list(mem0), config=cfg_of(case))
    for i, v in enumerate(case['regs']):
        sim.registers[i] = v
    for i, v in enumerate(case['fields']):
        sim.registers[24 + i] = v
    tr = TraceTracer(case['ins'])
    sim.set_tracer(tr)
    return sim, mem0, tr


def real_trace(cls, case, t):
    sim, mem0, tr = setup(cls, case)
    calls = []
    emap = set() if t['em'] else None
    df = (lambda pc: calls.append((0, pc)) or 'i') if t['dis'] else None
    tf = (lambda pc, i, t0: calls.append((1, pc, t0))) if t['dis'] else None
    try:
        with time_limit():
            ret = sim.trace(case['start'], t['stop'], t['mo'], t['mt'], bool(case['interrupts']), None, emap, None, df, tf)
    except Exception as e:
        return f'exception {type(e).__name__}: {e}'
    return state_line(sim, mem0, tr) + f' | done=1 ret={ret[0]},{ret[1]} | {calls} | {sorted(emap or ())}'


def trace_op(case, t, sel):
    def w(x):
        return '-' if x is None else str(int(x))
    mem = {int(a): v for a, v in case['mem'].items()}
    return (f"{sel} {FUEL} {w(case['start'])} {w(t['stop'])} {t['mo']} {t['mt']} {int(bool(case['interrupts']))} {int(t['em'])} {int(t['dis'])} "
            + simcorr.op_line(case['regs'], case['fields'], mem, case['ins'], [1, 1, 1, 1], frame=case['frame'], int_active=case['ia'], t0=14335 - 23, t1=57245))


def trace_correspondence(chk, c_plain, c_cmio, n_quick=40, n_thorough=700, batch=None):
    """The real `CSimulator.trace` (both builds) vs the loop translated from `CSimulator_trace` (Drivers/Loops.lean): state, return value
    (stop condition, operations), the sequence of `disassemble` / `trace` callback calls and the `exec_map` set; every stop condition."""
    rng = chk.rng
    ops, outs, mems = [], [], []
    for k in range(chk.scale(n_quick, n_thorough)):
        for cmio, cls, sel, name in ((False, c_plain, 'tr', 'c-plain'), (True, c_cmio, 'tc', 'c-cmio')):
            case = gen_case(rng, k, cmio)
            case['stop'] = case['end']
            kind = rng.randrange(4)
            t = {'stop': case['stop'], 'mo': 0, 'mt': 0, 'em': rng.random() < 0.5, 'dis': rng.random() < 0.5}
            if kind == 0:
                t['mo'] = rng.randrange(1, 60)
            elif kind == 1:
                t['mt'] = case['fields'][1] + rng.randrange(1, 3000)
            elif kind == 2:
                t['mo'], t['mt'] = rng.randrange(1, 200), case['fields'][1] + rng.randrange(1, 6000)
            if kind != 3 and rng.random() < 0.3:
                t['stop'] = None
            ops.append(trace_op(case, t, sel))
            outs.append(real_trace(cls, case, t))
            mems.append({int(a): v for a, v in case['mem'].items()})
            chk.case(f'loop-trace:{name}', ('looptrace', name, k, kind, t['em'], t['dis'], case['interrupts']),
                     {'impl': name, 'trace': {'max_operations': t['mo'], 'max_time': t['mt'], 'stop': t['stop']}} if k < 1 else None)
    finish_batch(chk, batch, 'real CSimulator.trace vs the loop translated from CSimulator_trace (Drivers/Loops)', ops, outs, mems, canon_model)


def real_frame(cls, case, f):
    sim, mem0, tr = setup(cls, case)
    calls = []
    emap = set() if f['em'] else None
    tf = (lambda fc, pc, t0: calls.append((1, fc, pc, t0))) if f['tr'] else None
    try:
        with time_limit():
            ret = sim.exec_frame(f['fc'], emap, tf)
    except Exception as e:
        return f'exception {type(e).__name__}: {e}'
    return state_line(sim, mem0, tr) + f' | done=1 ret={ret},0 | {calls} | {sorted(emap or ())}'


def frame_correspondence(chk, c_plain, c_cmio, n_quick=60, n_thorough=1000, batch=None):
    """The real `CSimulator.exec_frame` (both builds) vs the loop translated from `CSimulator_exec_frame`: random and structured code (all
    prefixes, DD/FD chains, HALT), fetch counters 1..200 (and 0 / negative: one pass), state, returned PC, `trace` calls, `exec_map`."""
    rng = chk.rng
    ops, outs, mems = [], [], []
    for k in range(chk.scale(n_quick, n_thorough)):
        for cmio, cls, sel, name in ((False, c_plain, 'fr', 'c-plain'), (True, c_cmio, 'fc', 'c-cmio')):
            case = gen_case(rng, k, cmio)
            if k % 2:
                # unstructured code with many prefixes at the start address
                base = case['start'] if case['start'] is not None else case['fields'][0]
                for j in range(80):
                    b = rng.choice((0xDD, 0xFD, 0xCB, 0xED, 0x00, 0x76, 0xFB, rng.randrange(256), rng.randrange(256)))
                    case['mem'][str((base + j) % 65536)] = b
            if case['start'] is not None:
                case['fields'][0] = case['start']
            f = {'fc': rng.choice((1, 2, 3, rng.randrange(1, 200), rng.randrange(1, 40), 0, -1)), 'em': rng.random() < 0.5, 'tr': rng.random() < 0.5}
            mem = {int(a): v for a, v in case['mem'].items()}
            ops.append(f"{sel} {FUEL} {f['fc']} {int(f['em'])} {int(f['tr'])} "
                       + simcorr.op_line(case['regs'], case['fields'], mem, case['ins'], [1, 1, 1, 1], frame=case['frame'], int_active=case['ia'], t0=14335 - 23, t1=57245))
            outs.append(real_frame(cls, case, f))
            mems.append(mem)
            chk.case(f'loop-frame:{name}', ('loopframe', name, k, f['fc'], f['em'], f['tr']), {'impl': name, 'exec_frame': f} if k < 1 else None)
    finish_batch(chk, batch, 'real CSimulator.exec_frame vs the loop translated from CSimulator_exec_frame (Drivers/Loops)', ops, outs, mems, canon_model)


# ---- the Python loop cores (Tracer.run's loop, process_block's frame loop): the very statements the translator consumed, compiled
#      as stand-alone functions and run on the real Python simulators

def compile_core(stmts, params, returns, name, env):
    import ast
    import copy
    fn = ast.FunctionDef(name=name, args=ast.arguments(posonlyargs=[], args=[ast.arg(arg=p) for p in params], kwonlyargs=[], kw_defaults=[], defaults=[]),
                         body=[copy.deepcopy(x) for x in stmts] + [ast.Return(value=ast.Tuple(elts=[ast.Name(id=r, ctx=ast.Load()) for r in returns], ctx=ast.Load()))],
                         decorator_list=[], type_params=[])
    mod = ast.Module(body=[fn], type_ignores=[])
    ast.fix_missing_locations(mod)
    ns = dict(env)
    exec(compile(mod, f'<{name}: statements of the working tree>', 'exec'), ns)
    return ns[name]


class _Self:
    border = 7


def py_core_runners():
    """-> (trace core, frame core) as Python callables built from the source statements"""
    import pyloop2lean
    _, tcore = pyloop2lean.trace_core(REPO)
    _, fcore = pyloop2lean.frame_core(REPO)
    tparams = ['simulator', 'registers', 'memory', 'start', 'stop', 'max_operations', 'max_time', 'interrupts', 'draw', 'exec_map', 'trace_line',
               'start_time', 'is128k', 'keyboard', 'self', 'disassemble', 'print', 'prefix', 'byte_fmt', 'word_fmt', 'r']
    trace_fn = compile_core(tcore, tparams, ['stop_cond', 'operations'], 'trace_core', {'PC': 24, 'T': 25})
    fparams = ['registers', 'memory', 'opcodes', 'exec_map', 'tracefile', 'trace_exec', 'context', 'fetch_counter', 'pc']
    frame_fn = compile_core(fcore, fparams, ['fetch_counter', 'pc'], 'frame_core', {})
    return trace_fn, frame_fn


def py_boundary_runner():
    import pyloop2lean
    _, bcore = pyloop2lean.boundary_core(REPO)
    return compile_core(bcore, ['registers', 'memory', 'tracer', 'accept_interrupt', 'flags_ldair', 'flags_ei', 'pc'], ['fetch_counter'], 'boundary_core', {})


class _NextFrame:
    def __init__(self, v):
        self.v = v

    def next_frame(self):
        return self.v


def py_boundary_correspondence(chk, py_plain, py_cmio, n_quick=150, n_thorough=3000, batch=None):
    """The end-of-frame code of `process_block` (its statements compiled from the working tree, on the real simulators) vs its translation
    `PyLoop.{Sim,Cmio}.frame_boundary`: last instruction HALT / LD A,I / LD A,R / EI / other, IFF 0/1, IM 0-2, playback flags 0-3, next
    frame short or not, EI / DD / FD at address 0."""
    rng = chk.rng
    fn = py_boundary_runner()
    ops, outs, mems = [], [], []
    for k in range(chk.scale(n_quick, n_thorough)):
        for cmio, cls, sel, name in ((False, py_plain, 'bp', 'py-plain'), (True, py_cmio, 'bq', 'py-cmio')):
            case = gen_case(rng, k, cmio)
            pc = rng.randrange(65536)
            last = rng.choice(([0x76], [0xED, 0x57], [0xED, 0x5F], [0xFB], [0xED, 0x00], [rng.randrange(256), rng.randrange(256)]))
            for j, b in enumerate(last):
                case['mem'][str((pc + j) % 65536)] = b
            case['mem']['0'] = rng.choice((0xF3, 0xFB, 0xDD, 0xFD, 0x00))
            case['fields'][0] = rng.choice((pc, (pc + 1) % 65536, (pc + 2) % 65536, 1, rng.randrange(65536)))
            case['fields'][2] = rng.choice((0, 1, 1))
            case['fields'][3] = rng.randrange(3)
            case['regs'][12] = rng.choice((0xF000, 0x4001, 0x0001, 0xFFFF))
            flags, nf = rng.randrange(8), rng.choice((1, 2, 3, 50, -1))
            mem = {int(a): v for a, v in case['mem'].items()}
            ops.append(f"{sel} {flags} {pc} {nf} "
                       + simcorr.op_line(case['regs'], case['fields'], mem, case['ins'], [1, 1, 1, 1], frame=case['frame'], int_active=case['ia'], t0=14335 - 23, t1=57245))
            sim, mem0, tr = setup(cls, case)
            try:
                (fc,) = fn(sim.registers, sim.memory, _NextFrame(nf), sim.accept_interrupt, flags & 1, flags & 2, pc)
                outs.append(state_line(sim, mem0, tr) + f' | done=1 ret=0,{fc} | [] | []')
            except Exception as e:
                outs.append(f'exception {type(e).__name__}: {e}')
            mems.append(mem)
            chk.case(f'loop-pyboundary:{name}', ('looppybnd', name, k, flags, nf, tuple(last), case['fields'][2]))
    finish_batch(chk, batch, 'the end-of-frame code of process_block (source statements on the real simulators) vs its translation (Drivers/Loops)',
                 ops, outs, mems, canon_model)


class _Line:
    """stands for `trace_line`: `.format(pc=, i=, r=, t=, m=)` -> the (pc, t0) of the call"""
    def format(self, pc, i, r, t, m):
        return (1, pc, t)


def real_py_trace(trace_fn, cls, case, t):
    sim, mem0, tr = setup(cls, case)
    calls = []
    emap = set() if t['em'] else None
    line = _Line() if t['dis'] else None
    try:
      with time_limit():
        sc, ops = trace_fn(sim, sim.registers, sim.memory, case['start'], t['stop'], t['mo'], t['mt'], bool(case['interrupts']), None, emap, line,
                           sim.registers[25], False, None, _Self(), lambda m, pc, *a: (calls.append((0, pc)) or ('i',)), calls.append, '$', '02X', '04X', None)
    except Exception as e:
        return f'exception {type(e).__name__}: {e}'
    return state_line(sim, mem0, tr) + f' | done=1 ret={sc},{ops} | {calls} | {sorted(emap or ())}'


def py_trace_correspondence(chk, py_plain, py_cmio, n_quick=40, n_thorough=700, batch=None):
    """The Python loop of `Tracer.run` (its statements compiled from the working tree, on the real `Simulator` / `CMIOSimulator`) vs its translation
    `PyLoop.{Sim,Cmio}.trace_run` (Drivers/Loops.lean)."""
    rng = chk.rng
    trace_fn, _ = py_core_runners()
    ops, outs, mems = [], [], []
    for k in range(chk.scale(n_quick, n_thorough)):
        for cmio, cls, sel, name in ((False, py_plain, 'pt', 'py-plain'), (True, py_cmio, 'pu', 'py-cmio')):
            case = gen_case(rng, k, cmio)
            case['stop'] = case['end']
            if case['start'] is None:
                case['start'] = case['fields'][0]
            kind = rng.randrange(4)
            t = {'stop': case['stop'], 'mo': 0, 'mt': 0, 'em': rng.random() < 0.5, 'dis': rng.random() < 0.5}
            if kind == 0:
                t['mo'] = rng.randrange(1, 60)
            elif kind == 1:
                t['mt'] = case['fields'][1] + rng.randrange(1, 3000)
            elif kind == 2:
                t['mo'], t['mt'] = rng.randrange(1, 200), case['fields'][1] + rng.randrange(1, 6000)
            if kind != 3 and rng.random() < 0.3:
                t['stop'] = None
            mem = {int(a): v for a, v in case['mem'].items()}
            w = '-' if t['stop'] is None else str(t['stop'])
            ops.append(f"{sel} {FUEL} {case['start']} {w} {t['mo']} {t['mt']} {int(bool(case['interrupts']))} {int(t['em'])} {int(t['dis'])} "
                       + simcorr.op_line(case['regs'], case['fields'], mem, case['ins'], [1, 1, 1, 1], frame=case['frame'], int_active=case['ia'], t0=14335 - 23, t1=57245))
            outs.append(real_py_trace(trace_fn, cls, case, t))
            mems.append(mem)
            chk.case(f'loop-pytrace:{name}', ('looppytrace', name, k, kind, t['em'], t['dis'], case['interrupts']))
    finish_batch(chk, batch, 'the Python loop of Tracer.run (source statements on the real simulators) vs its translation (Drivers/Loops)', ops, outs, mems, canon_model)


def real_py_frame(frame_fn, cls, case, f, pc0):
    sim, mem0, tr = setup(cls, case)
    calls = []
    emap = set() if f['em'] else None
    try:
      with time_limit():
        fc, pc = frame_fn(sim.registers, sim.memory, sim.opcodes, emap, f['tr'], lambda tf, ctx, fc, pc, t0: calls.append((1, fc, pc, t0)), None, f['fc'], pc0)
    except Exception as e:
        return f'exception {type(e).__name__}: {e}'
    return state_line(sim, mem0, tr) + f' | done=1 ret={pc},{fc} | {calls} | {sorted(emap or ())}'


def py_frame_correspondence(chk, py_plain, py_cmio, n_quick=60, n_thorough=1000, batch=None):
    """The Python frame loop of `process_block` (its statements compiled from the working tree, on the real simulators) vs its translation
    `PyLoop.{Sim,Cmio}.frame_loop`."""
    rng = chk.rng
    _, frame_fn = py_core_runners()
    ops, outs, mems = [], [], []
    for k in range(chk.scale(n_quick, n_thorough)):
        for cmio, cls, sel, name in ((False, py_plain, 'pf', 'py-plain'), (True, py_cmio, 'pg', 'py-cmio')):
            case = gen_case(rng, k, cmio)
            if k % 2:
                base = case['start'] if case['start'] is not None else case['fields'][0]
                for j in range(80):
                    case['mem'][str((base + j) % 65536)] = rng.choice((0xDD, 0xFD, 0xCB, 0xED, 0x00, 0x76, 0xFB, rng.randrange(256), rng.randrange(256)))
            if case['start'] is not None:
                case['fields'][0] = case['start']
            f = {'fc': rng.choice((1, 2, 3, rng.randrange(1, 200), rng.randrange(1, 40), 0, -1)), 'em': rng.random() < 0.5, 'tr': rng.random() < 0.5}
            pc0 = rng.randrange(65536)
            mem = {int(a): v for a, v in case['mem'].items()}
            ops.append(f"{sel} {FUEL} {f['fc']} {pc0} {int(f['em'])} {int(f['tr'])} "
                       + simcorr.op_line(case['regs'], case['fields'], mem, case['ins'], [1, 1, 1, 1], frame=case['frame'], int_active=case['ia'], t0=14335 - 23, t1=57245))
            outs.append(real_py_frame(frame_fn, cls, case, f, pc0))
            mems.append(mem)
            chk.case(f'loop-pyframe:{name}', ('looppyframe', name, k, f['fc'], f['em'], f['tr']))
    finish_batch(chk, batch, 'the Python frame loop of process_block (source statements on the real simulators) vs its translation (Drivers/Loops)', ops, outs, mems, canon_model)


def regen_c_side(chk):
    """For the checks that only use the C loop translations (C10, C20): the C handler translation they call + the loops."""
    import cgencheck
    return cgencheck.regen_cgen(chk) and regen_loops(chk)


LOOP_DRIVER_MODULES = ['SkoolVerif.Prelude.SimProto', 'SkoolVerif.Gen.PyLoops', 'SkoolVerif.Gen.PyLoopCores', 'SkoolVerif.Gen.CLoops.run', 'SkoolVerif.Gen.CCmioLoops.run',
                       'SkoolVerif.Gen.CLoops.trace', 'SkoolVerif.Gen.CCmioLoops.trace', 'SkoolVerif.Gen.CLoops.exec_frame',
                       'SkoolVerif.Gen.CCmioLoops.exec_frame']


def replay(chk, data, classes):
    cls = dict(classes)
    if data['kind'] == 'nostop':
        res = nostop_probe(classes)
        return res.get('py-plain') != res.get('c-plain') or res.get('py-cmio') != res.get('c-cmio')
    a, b = data['pair']
    return real_run(cls[a], data['case'], False) != real_run(cls[b], data['case'], True)
