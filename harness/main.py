"""Entry point: ./check <ID> [--tier quick|thorough] [--replay FILE]"""
import argparse
import importlib
import json
import os
import sys
import traceback

sys.path.insert(0, os.path.dirname(os.path.abspath(__file__)))
import framework
from framework import Check, Infra


def main():
    ap = argparse.ArgumentParser()
    ap.add_argument('pid')
    ap.add_argument('--tier', default=os.environ.get('VERIF_TIER', 'quick'), choices=['quick', 'thorough'])
    ap.add_argument('--replay')
    ap.add_argument('--seed', type=int, default=int(os.environ.get('VERIF_SEED', '0') or 0))
    args = ap.parse_args()
    pid = args.pid.upper()
    mod = importlib.import_module(f'props.{pid.lower()}')
    chk = Check(pid, args.tier, args.seed)
    try:
        if args.replay:
            with open(args.replay) as f:
                data = json.load(f)
            if data.get('kind') == 'broken' or not hasattr(mod, 'replay'):
                # a broken proof/correspondence replays as the full check
                return run(mod, chk)
            failed = mod.replay(chk, data['replay'])
            print(('REPRODUCED ' if failed else 'not reproduced ') + data.get('desc', ''))
            return 1 if failed else 0
        return run(mod, chk)
    except Infra as e:
        print(f'[{pid}] infrastructure problem: {e}', file=sys.stderr)
        return 2
    except Exception:
        traceback.print_exc()
        return 2


def run(mod, chk):
    mod.run(chk)
    return chk.finish(getattr(mod, 'LEVEL', 'proof'))


if __name__ == '__main__':
    sys.exit(main())
