"""Compile /repo/c/csimulator.c (plain and -DCONTENTION) into a scratch directory and load the two
extension modules by path, so the C under test is the C in the working tree."""
import importlib.machinery
import importlib.util
import os
import subprocess
import sysconfig

from framework import REPO, Infra


def build(scratch, opt='-O1'):
    src = os.path.join(REPO, 'c', 'csimulator.c')
    inc = sysconfig.get_paths()['include']
    suffix = sysconfig.get_config_var('EXT_SUFFIX')
    mods = {}
    procs = []
    for name, flags in (('csimulator', []), ('ccmiosimulator', ['-DCONTENTION'])):
        d = os.path.join(scratch, 'cext_' + name)
        os.makedirs(d, exist_ok=True)
        out = os.path.join(d, name + suffix)
        cmd = ['gcc', '-shared', '-fPIC', opt, '-fwrapv', '-I', inc, *flags, src, '-o', out]
        procs.append((name, out, subprocess.Popen(cmd, stdout=subprocess.PIPE, stderr=subprocess.STDOUT, text=True)))
    for name, out, p in procs:
        o, _ = p.communicate()
        if p.returncode != 0:
            raise Infra(f'gcc failed for {name}: {o[-2000:]}')
        loader = importlib.machinery.ExtensionFileLoader(name, out)
        spec = importlib.util.spec_from_file_location(name, out, loader=loader)
        mod = importlib.util.module_from_spec(spec)
        loader.exec_module(mod)
        mods[name] = mod
    return mods['csimulator'].CSimulator, mods['ccmiosimulator'].CCMIOSimulator
