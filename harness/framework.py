"""Shared machinery for the per-property checks (stdlib only; run with /venv/bin/python).

A check is one run of  `./check <ID> [--tier quick|thorough] [--replay FILE]`:

  1. regenerate the generated Lean models from /repo's working tree (translator);
  2. `lake build` the property's theorem module (kernel re-checks whatever changed);
  3. audit: forbidden-token grep + `#print axioms` of every property theorem;
  4. correspondence: model drivers vs the real code on the same inputs;
  5. end-to-end search: the property itself evaluated on the real tools;
  6. evidence + VIOLATION / KNOWN-FINDING lines + exit status.

A broken proof / translator / correspondence is not by itself a violation: it
is recorded as a `break`, the property module's `search()` then looks for a
concrete failing input on the real code; if none is found the run still ends
in a VIOLATION whose line ends with `no-failing-input-found`.
"""
import collections
import fcntl
import hashlib
import json
import os
import random
import re
import shutil
import subprocess
import sys
import tempfile
import time

VERIF = os.path.dirname(os.path.dirname(os.path.abspath(__file__)))
LEAN_DIR = os.path.join(VERIF, 'lean')
REPO = os.environ.get('SKOOLKIT_REPO', '/repo')
EVIDENCE_DIR = os.environ.get('VERIF_EVIDENCE_DIR') or os.path.join(VERIF, 'evidence')
REPLAY_DIR = os.path.join(VERIF, 'replay')
KNOWN_FILE = os.path.join(VERIF, 'KNOWN_FINDINGS.txt')
ALLOWED_AXIOMS = {'propext', 'Classical.choice', 'Quot.sound'}
FORBIDDEN = re.compile(r'\b(sorry|admit|native_decide|bv_decide|implemented_by|unsafe)\b|^\s*axiom\s|maxHeartbeats\s+0\b')

if REPO not in sys.path:
    sys.path.insert(0, REPO)
os.environ.setdefault('SKOOLKIT_VERIF', '1')


class Infra(Exception):
    """The check could not run (tooling problem, timeout): exit 2, never 1."""


def sh(cmd, cwd=None, timeout=None, input=None, env=None):
    try:
        p = subprocess.run(cmd, cwd=cwd, timeout=timeout, input=input, env=env,
                           stdout=subprocess.PIPE, stderr=subprocess.STDOUT, text=True)
    except subprocess.TimeoutExpired as e:
        raise Infra(f'timeout after {timeout}s: {cmd}') from e
    return p.returncode, p.stdout


class LeanLock:
    def __enter__(self):
        self.f = open(os.path.join(LEAN_DIR, '.lock'), 'w')
        fcntl.flock(self.f, fcntl.LOCK_EX)
        return self

    def __exit__(self, *a):
        fcntl.flock(self.f, fcntl.LOCK_UN)
        self.f.close()


def strip_comments(text):
    """Remove Lean block and line comments (good enough for the audit grep)."""
    out = []
    i, depth, n = 0, 0, len(text)
    while i < n:
        if text.startswith('/-', i):
            depth += 1
            i += 2
        elif depth and text.startswith('-/', i):
            depth -= 1
            i += 2
        elif depth:
            if text[i] == '\n':
                out.append('\n')
            i += 1
        elif text.startswith('--', i):
            while i < n and text[i] != '\n':
                i += 1
        elif text[i] == '"':
            j = i + 1
            while j < n and text[j] != '"':
                j += 2 if text[j] == '\\' else 1
            out.append('""')
            i = j + 1
        else:
            out.append(text[i])
            i += 1
    return ''.join(out)


def lean_imports(module, seen=None):
    """Transitive SkoolVerif.* imports of a module (file paths)."""
    seen = seen if seen is not None else {}
    if module in seen:
        return seen
    path = os.path.join(LEAN_DIR, module.replace('.', '/') + '.lean')
    if not os.path.exists(path):
        return seen
    seen[module] = path
    with open(path) as f:
        for line in f:
            m = re.match(r'\s*(?:public\s+)?import\s+(SkoolVerif\.\S+)', line)
            if m:
                lean_imports(m.group(1), seen)
    return seen


class Check:
    def __init__(self, pid, tier='quick', seed=0):
        self.pid = pid
        self.tier = tier
        self.seed = seed
        self.rng = random.Random(seed)
        self.t0 = time.time()
        self.scratch = tempfile.mkdtemp(prefix=f'skv_{pid}_')
        self.evaluations = 0
        self.nontrivial = set()
        self.samples = []
        self.dist = collections.Counter()
        self.obligations = {}        # theorem -> 'ok' | reason
        self.checker_cmds = []
        self.axioms_seen = set()
        self.breaks = []             # broken proof / translator / correspondence
        self.violations = []         # concrete failing inputs on the real code
        self.known_hits = []
        self.notes = []
        self.assumptions = []
        self.trusted = []
        self.extra = {}
        self.exhaustive = False
        self.rule = ''
        self.corr_cases = 0
        self.corr_diffs = 0

    # ---- bookkeeping -------------------------------------------------
    @property
    def thorough(self):
        return self.tier == 'thorough'

    def scale(self, quick, thorough):
        return thorough if self.thorough else quick

    def case(self, tag=None, nontrivial_key=None, sample=None):
        """Count one explored case. `nontrivial_key`: hashable identifying a
        distinct non-trivial case (None = trivial)."""
        self.evaluations += 1
        if tag is not None:
            self.dist[tag] += 1
        if nontrivial_key is not None:
            if len(self.nontrivial) < 2_000_000:
                self.nontrivial.add(hash(nontrivial_key))
        if sample is not None and len(self.samples) < 12:
            self.samples.append(sample)

    def note(self, s):
        self.notes.append(s)
        print(f'[{self.pid}] {s}', flush=True)

    def elapsed(self):
        return time.time() - self.t0

    # ---- Lean --------------------------------------------------------
    def write_gen(self, relpath, text):
        """Write a generated Lean file if its text changed (under the lock)."""
        path = os.path.join(LEAN_DIR, relpath)
        os.makedirs(os.path.dirname(path), exist_ok=True)
        old = None
        if os.path.exists(path):
            with open(path) as f:
                old = f.read()
        if old != text:
            with open(path + '.tmp', 'w') as f:
                f.write(text)
            os.replace(path + '.tmp', path)
            return True
        return False

    def lake_build(self, targets, timeout=3000):
        """Build modules; returns True when all built. Failures are recorded as breaks."""
        if isinstance(targets, str):
            targets = [targets]
        cmd = ['lake', 'build'] + list(targets)
        self.checker_cmds.append('cd lean && ' + ' '.join(cmd))
        with LeanLock():
            rc, out = sh(cmd, cwd=LEAN_DIR, timeout=timeout)
        if rc != 0:
            errs = [l for l in out.splitlines() if l.startswith('error:')]
            self.breaks.append({'kind': 'build', 'name': ' '.join(targets),
                                'detail': '\n'.join(errs[:40]) or out[-3000:]})
            self._build_out = out
            return False
        self._build_out = out
        return True

    def clean_modules(self, modules):
        """Remove the build products of the given modules (thorough tier: re-check from clean)."""
        with LeanLock():
            for m in modules:
                base = os.path.join(LEAN_DIR, '.lake/build/lib/lean', m.replace('.', '/'))
                for ext in ('.olean', '.ilean', '.trace', '.hash', '.olean.hash', '.ilean.hash',
                            '.olean.server', '.olean.private'):
                    try:
                        os.remove(base + ext)
                    except OSError:
                        pass

    def audit(self, props_module, extra_theorems=()):
        """Count the theorems of a Props module, check each one's axioms, grep sources."""
        mods = lean_imports(props_module)
        path = mods.get(props_module)
        if not path:
            self.breaks.append({'kind': 'audit', 'name': props_module, 'detail': 'module file missing'})
            return
        # 1. forbidden tokens in every SkoolVerif source the theorems depend on
        for m, p in mods.items():
            with open(p) as f:
                body = strip_comments(f.read())
            for ln, line in enumerate(body.splitlines(), 1):
                if FORBIDDEN.search(line):
                    self.breaks.append({'kind': 'audit', 'name': m,
                                        'detail': f'forbidden token at {p}:{ln}: {line.strip()[:120]}'})
        # 2. theorem list
        with open(path) as f:
            src = strip_comments(f.read())
        ns = None
        names = []
        spans = []
        for ln, line in enumerate(src.splitlines(), 1):
            m = re.match(r'\s*namespace\s+(\S+)', line)
            if m and ns is None:
                ns = m.group(1)
            m = re.match(r'\s*(?:private\s+|protected\s+)?theorem\s+([^\s:({\[]+)', line)
            if m:
                names.append(m.group(1))
                spans.append(ln)
        names = list(names) + list(extra_theorems)
        full = [(f'{ns}.{n}' if ns and not n.startswith(ns + '.') else n) for n in names]
        for n in full:
            self.obligations.setdefault(n, 'unchecked')
        built = not any(b['kind'] == 'build' for b in self.breaks)
        if not built:
            # attribute build errors in the Props file to theorems by line number
            rel = os.path.relpath(path, LEAN_DIR)
            bad_lines = [int(m.group(1)) for m in re.finditer(re.escape(rel) + r':(\d+):\d+', getattr(self, '_build_out', ''))]
            other_err = [l for l in getattr(self, '_build_out', '').splitlines()
                         if l.startswith('error:') and rel not in l and 'build failed' not in l and 'Lean exited' not in l]
            for i, n in enumerate(full[:len(spans)]):
                lo = spans[i]
                hi = spans[i + 1] if i + 1 < len(spans) else 10 ** 9
                if any(lo <= b < hi for b in bad_lines):
                    self.obligations[n] = 'proof fails to check'
                elif other_err or not bad_lines:
                    self.obligations[n] = 'dependency fails to build'
                else:
                    self.obligations[n] = 'not re-checked (module did not build)'
            return
        # 3. axioms
        audit_dir = os.path.join(self.scratch, 'audit')
        os.makedirs(audit_dir, exist_ok=True)
        af = os.path.join(audit_dir, f'Audit_{self.pid}.lean')
        with open(af, 'w') as f:
            f.write(f'import {props_module}\n')
            for n in full:
                f.write(f'#print axioms {n}\n')
        self.checker_cmds.append(f'cd lean && lake env lean Audit_{self.pid}.lean  # `#print axioms` of each theorem')
        rc, out = sh(['lake', 'env', 'lean', af], cwd=LEAN_DIR, timeout=1200)
        out = out.replace('\n  ', ' ')
        for n in full:
            m = re.search(r"'" + re.escape(n) + r"' (depends on axioms: \[([^\]]*)\]|does not depend on any axioms)", out)
            if not m:
                self.obligations[n] = 'no #print axioms output'
                self.breaks.append({'kind': 'audit', 'name': n, 'detail': 'theorem not found by #print axioms: ' + out[-500:]})
                continue
            axs = set(a.strip() for a in (m.group(2) or '').split(',') if a.strip())
            self.axioms_seen |= axs
            bad = axs - ALLOWED_AXIOMS
            if bad:
                self.obligations[n] = 'axioms: ' + ','.join(sorted(bad))
                self.breaks.append({'kind': 'audit', 'name': n, 'detail': 'disallowed axioms ' + ','.join(sorted(bad))})
            else:
                self.obligations[n] = 'ok'

    def leanchecker(self, modules):
        self.checker_cmds.append('cd lean && lake env leanchecker ' + ' '.join(modules))
        rc, out = sh(['lake', 'env', 'leanchecker'] + list(modules), cwd=LEAN_DIR, timeout=3000)
        if rc != 0:
            self.breaks.append({'kind': 'audit', 'name': 'leanchecker', 'detail': out[-2000:]})
        return rc == 0

    def run_driver(self, driver, lines, timeout=1800):
        """Pipe op lines through `lake env lean --run Drivers/<driver>.lean`; returns output lines."""
        data = '\n'.join(lines) + '\n'
        rc, out = sh(['lake', 'env', 'lean', '--run', f'Drivers/{driver}.lean'], cwd=LEAN_DIR,
                     timeout=timeout, input=data)
        res = out.split('\n')
        if res and res[-1] == '':
            res.pop()
        if rc != 0 or len(res) != len(lines):
            self.breaks.append({'kind': 'correspondence', 'name': f'Drivers/{driver}.lean',
                                'detail': f'driver rc={rc}, {len(res)} lines for {len(lines)} ops: ' + out[-1500:]})
            return None
        return res

    def compare(self, name, ops, impl_out, model_out, limit=5):
        """Diff two output streams of the same ops; record diffs as correspondence breaks."""
        if model_out is None:
            return []
        diffs = []
        for op, a, b in zip(ops, impl_out, model_out):
            self.corr_cases += 1
            if a != b:
                self.corr_diffs += 1
                if len(diffs) < limit:
                    diffs.append({'op': op[:2000], 'impl': a[:2000], 'model': b[:2000]})
        if diffs:
            self.breaks.append({'kind': 'correspondence', 'name': name, 'detail': diffs})
        return diffs

    # ---- results -----------------------------------------------------
    def violation(self, key, desc, replay):
        """A concrete failing input of the property on the real code.
        `key` identifies the failing input / call site for KNOWN_FINDINGS matching."""
        for v in self.violations:
            if v['key'] == key:
                v['count'] += 1
                return
        self.violations.append({'key': key, 'desc': desc, 'replay': replay, 'count': 1})

    def finish(self, level='proof'):
        known = load_known(self.pid)
        os.makedirs(EVIDENCE_DIR, exist_ok=True)
        os.makedirs(REPLAY_DIR, exist_ok=True)
        lines = []
        new = 0
        for v in self.violations:
            if v['key'] in known:
                lines.append(f"KNOWN-FINDING: property={self.pid} {v['key']}: {known[v['key']]}")
                self.known_hits.append(v['key'])
                continue
            new += 1
            path = self.write_replay('input', v)
            lines.append(f"VIOLATION property={self.pid} replay={path}")
        if self.breaks and new == 0:
            # the property is no longer shown to hold and no failing input was found
            new += 1
            path = self.write_replay('broken', {'key': 'broken-proof-or-correspondence',
                                                'desc': 'proof obligation / translator / correspondence no longer checks',
                                                'replay': {'breaks': self.breaks}})
            lines.append(f"VIOLATION property={self.pid} replay={path} no-failing-input-found")
        elif self.breaks:
            for b in self.breaks:
                print(f"[{self.pid}] also broken: {b['kind']} {b['name']}", flush=True)
        nob = len(self.obligations)
        ndis = sum(1 for s in self.obligations.values() if s == 'ok')
        cov = {
            'obligations': nob,
            'discharged': ndis,
            'theorems': self.obligations,
            'checker_cmd': ' ; '.join(self.checker_cmds) or 'none',
            'trusted_base': ['Lean 4.33.0 kernel', 'axioms used: ' + (', '.join(sorted(self.axioms_seen)) or 'none')] + self.trusted,
            'evaluations': self.evaluations,
            'distinct_nontrivial': len(self.nontrivial),
            'rule': self.rule,
            'samples': self.samples or ['(no cases explored)'],
            'distribution': dict(self.dist.most_common(60)),
            'correspondence_cases': self.corr_cases,
            'correspondence_diffs': self.corr_diffs,
            'exhaustive': bool(self.exhaustive),
            'breaks': self.breaks[:20],
            'known_findings_hit': self.known_hits,
            'notes': self.notes[-40:],
        }
        cov.update(self.extra)
        ev = {
            'property_id': self.pid,
            'tier': self.tier,
            'seed': self.seed,
            'level': level,
            'coverage': cov,
            'assumptions': self.assumptions,
            'wall_s': round(self.elapsed(), 2),
            'violations': new,
        }
        with open(os.path.join(EVIDENCE_DIR, f'{self.pid}.json'), 'w') as f:
            json.dump(ev, f, indent=1, default=str)
            f.write('\n')
        for l in lines:
            print(l, flush=True)
        print(f'[{self.pid}] tier={self.tier} seed={self.seed} obligations={ndis}/{nob} cases={self.evaluations} '
              f'corr={self.corr_cases} breaks={len(self.breaks)} violations={new} known={len(self.known_hits)} '
              f'wall={self.elapsed():.1f}s', flush=True)
        shutil.rmtree(self.scratch, ignore_errors=True)
        return 1 if new else 0

    def write_replay(self, kind, v):
        blob = json.dumps(v['replay'], sort_keys=True, default=str)
        h = hashlib.sha1((v['key'] + blob).encode()).hexdigest()[:12]
        path = os.path.join(REPLAY_DIR, f'{self.pid}-{h}.json')
        with open(path, 'w') as f:
            json.dump({'property': self.pid, 'kind': kind, 'key': v['key'], 'desc': v['desc'],
                       'seed': self.seed, 'tier': self.tier, 'replay': v['replay'],
                       'command': f'./check {self.pid} --replay {path}'}, f, indent=1, default=str)
            f.write('\n')
        return path


def load_known(pid):
    """KNOWN_FINDINGS.txt: `known: property=<id> key=<key> <what fails>`; `fixed:` lines suppress nothing."""
    res = {}
    if os.path.exists(KNOWN_FILE):
        with open(KNOWN_FILE) as f:
            for line in f:
                m = re.match(r'known:\s+property=(\S+)\s+key=(\S+)\s+(.*)', line.strip())
                if m and m.group(1) == pid:
                    res[m.group(2)] = m.group(3)
    return res


# ---- helpers for property modules -----------------------------------------

def fresh_import(*names):
    """(Re)import skoolkit modules from REPO's working tree."""
    import importlib
    for k in [k for k in sys.modules if k == 'skoolkit' or k.startswith('skoolkit.')]:
        del sys.modules[k]
    return [importlib.import_module(n) for n in names]


def shrink_list(xs, fails, max_steps=2000):
    """Delta-debug a list to a smaller one on which `fails` is still true."""
    xs = list(xs)
    n = 2
    steps = 0
    while len(xs) >= 2 and steps < max_steps:
        chunk = max(1, len(xs) // n)
        reduced = False
        for i in range(0, len(xs), chunk):
            cand = xs[:i] + xs[i + chunk:]
            steps += 1
            if cand and fails(cand):
                xs = cand
                n = max(n - 1, 2)
                reduced = True
                break
        if not reduced:
            if chunk == 1:
                break
            n = min(n * 2, len(xs))
    return xs
