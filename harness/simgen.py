"""Regenerates every generated Lean file from /repo's working tree (translator tie).
A translator rejection is recorded as a break (never silently skipped)."""
import json
import os
import sys

from framework import VERIF, REPO, LeanLock

sys.path.insert(0, os.path.join(VERIF, 'translate'))

GEN_FILES = ('SimTables.lean', 'SimTblEnums.lean', 'SimHandlers.lean', 'CmioHandlers.lean', 'CDispatch.lean',
             'SimRangeThms.lean', 'CmioRangeThms.lean', 'CmioVsSimThms.lean')


def regen(chk):
    """Returns True when all generated files were (re)written; records breaks otherwise."""
    import importlib
    for name in ('py2lean', 'cdispatch', 'gen_range', 'gen_cmiovs'):
        if name in sys.modules:
            importlib.reload(sys.modules[name])
    import py2lean
    import cdispatch
    import gen_range
    import gen_cmiovs
    ok = True
    outputs = {}
    changed = []
    try:
        tables, enums, meta = py2lean.gen_simtables(REPO)
        outputs['SimTables.lean'] = tables
        outputs['SimTblEnums.lean'] = enums
        outputs['simtables.meta.json'] = json.dumps(meta, indent=1)
    except Exception as e:
        chk.breaks.append({'kind': 'translator', 'name': 'simtables.py -> Gen/SimTables.lean', 'detail': f'{type(e).__name__}: {e}'})
        ok = False
    for label, fn, kw in (('simulator.py -> Gen/SimHandlers.lean', 'SimHandlers.lean', {}),
                          ('cmiosimulator.py -> Gen/CmioHandlers.lean', 'CmioHandlers.lean', {'cmio': True})):
        try:
            text, _ = py2lean.gen_sim(REPO, **kw)
            outputs[fn] = text
        except Exception as e:
            chk.breaks.append({'kind': 'translator', 'name': label, 'detail': f'{type(e).__name__}: {e}'})
            ok = False
    try:
        outputs['CDispatch.lean'] = cdispatch.gen_cdispatch(REPO)
    except Exception as e:
        chk.breaks.append({'kind': 'translator', 'name': 'c/csimulator.c -> Gen/CDispatch.lean', 'detail': f'{type(e).__name__}: {e}'})
        ok = False
    try:
        outputs['SimRangeThms.lean'] = gen_range.gen(REPO)
        outputs['CmioRangeThms.lean'] = gen_range.gen(REPO, cmio=True)
        outputs['CmioVsSimThms.lean'] = gen_cmiovs.gen(REPO)
    except Exception as e:
        if ok:
            chk.breaks.append({'kind': 'translator', 'name': 'range theorem generator', 'detail': f'{type(e).__name__}: {e}'})
        ok = False
    with LeanLock():
        for fn, text in outputs.items():
            if chk.write_gen(os.path.join('SkoolVerif', 'Gen', fn), text):
                changed.append(fn)
    if changed:
        chk.note('regenerated (source changed): ' + ', '.join(changed))
    chk.extra['generated_files'] = sorted(outputs)
    chk.extra['generated_changed'] = changed
    return ok
