"""Single-step differential execution: real simulators (Python / C, plain / contended) vs the
generated Lean models (Drivers/Sim.lean, Drivers/Cmio.lean).  Shared by C05/C06/C07/C08/C10/C19/C20."""
import os

BOUND16 = (0, 1, 0x3FFE, 0x3FFF, 0x4000, 0x4001, 0x7FFE, 0x7FFF, 0x8000, 0xBFFF, 0xC000, 0xFFFE, 0xFFFF)
BOUND8 = (0, 1, 0x0F, 0x10, 0x7F, 0x80, 0xFE, 0xFF)
PREFIXES = {'MAIN': (), 'CB': (0xCB,), 'ED': (0xED,), 'DD': (0xDD,), 'FD': (0xFD,), 'DDCB': (0xDD, 0xCB), 'FDCB': (0xFD, 0xCB)}


def slot_bytes(tbl, op, rng):
    """Opcode bytes selecting `op` in dispatch table `tbl` (+ random operand bytes)."""
    p = PREFIXES[tbl]
    if len(p) == 2:
        return list(p) + [rng.choice(BOUND8 + (rng.randrange(256),)), op]
    return list(p) + [op] + [rng.choice(BOUND8 + (rng.randrange(256),)) for _ in range(3)]


def all_slots():
    for tbl in PREFIXES:
        for op in range(256):
            yield tbl, op


class LogMem(list):
    """48K memory (list of 65536) that logs writes."""
    def __init__(self, *a):
        super().__init__(*a)
        self.log = []

    def __setitem__(self, i, v):
        self.log.append((i, v))
        super().__setitem__(i, v)


class Tracer:
    def __init__(self, ins, mem128=None):
        self.ins = list(ins)
        self.in_log = []
        self.out_log = []
        self.mem128 = mem128

    def read_port(self, registers, port):
        self.in_log.append(port)
        return self.ins.pop(0) if self.ins else 255

    def write_port(self, registers, port, value, offset=None):
        self.out_log.append((port, value))


def rand_state(rng, tbl, op, frame=69888, t_bias=None):
    """A random in-range CPU state with the given slot's opcode bytes at PC."""
    pc = rng.choice(BOUND16 + (rng.randrange(65536),) * 4)
    code = slot_bytes(tbl, op, rng)
    regs = [rng.choice(BOUND8 + (rng.randrange(256),) * 3) for _ in range(24)]
    regs[12] = rng.choice(BOUND16 + (rng.randrange(65536),) * 3)
    regs[13] = 0
    # operand addresses: bias HL/IX/IY/BC/DE pairs to region boundaries
    for hi, lo in ((6, 7), (8, 9), (10, 11), (2, 3), (4, 5)):
        if rng.random() < 0.4:
            v = rng.choice(BOUND16)
            regs[hi], regs[lo] = v >> 8, v & 255
    t = t_bias(rng) if t_bias else rng.choice((0, 1, 31, 32, 33, frame - 1, frame, frame + 5, 14335, 14336, 20000, rng.randrange(3 * frame)))
    fields = [pc, t, rng.randrange(2), rng.randrange(3), rng.choice((0, 0, 0, 1)), rng.randrange(65536)]
    mem = {}
    for k, b in enumerate(code):
        mem[(pc + k) % 65536] = b
    # some random data at places operands may point
    for hi, lo in ((6, 7), (8, 9), (10, 11), (2, 3), (4, 5)):
        a = regs[lo] + 256 * regs[hi]
        for d in (-1, 0, 1, 2):
            mem.setdefault((a + d) % 65536, rng.choice(BOUND8 + (rng.randrange(256),)))
    for d in (-2, -1, 0, 1):
        mem.setdefault((regs[12] + d) % 65536, rng.randrange(256))
    if len(code) > 2 and tbl in ('DD', 'FD', 'DDCB', 'FDCB'):
        dbyte = code[2]
        off = dbyte if dbyte < 128 else dbyte - 256
        for hi, lo in ((8, 9), (10, 11)):
            mem.setdefault((regs[lo] + 256 * regs[hi] + off) % 65536, rng.randrange(256))
    nn = code[-2] + 256 * code[-1] if len(code) >= 3 else 0
    for d in (0, 1):
        mem.setdefault((nn + d) % 65536, rng.randrange(256))
    # IM 2 vector
    ins = [rng.randrange(256) for _ in range(2)]
    tracers = [rng.randrange(2) for _ in range(4)]
    return regs, fields, mem, ins, tracers


def op_line(regs, fields, mem, ins, tracers, frame=69888, int_active=32, t0=14335 - 23, t1=57245, is128=0, o7ffd=0):
    cfg = ' '.join(map(str, tracers + [frame, int_active, t0, t1, is128, o7ffd]))
    return (f"{cfg} ; {' '.join(map(str, regs))} ; {' '.join(map(str, fields))} ; {' '.join(map(str, ins))} ; "
            + ' '.join(f'{a}:{v}' for a, v in sorted(mem.items())))


class PartialTracer:
    """Tracer exposing read_port/write_port selectively (Simulator.set_tracer probes with hasattr)."""
    pass


class PySim:
    """Reusable wrapper: one simulator instance, state reset per case (closures keep their
    references to the same `registers` and `memory` objects)."""

    def __init__(self, sim_cls, config=None):
        self.memory = LogMem([0] * 65536)
        self.sim = sim_cls(self.memory, config=dict(config) if config else None)
        self.dirty = set()

    def step(self, regs, fields, mem, ins, tracers):
        memory, sim = self.memory, self.sim
        for a in self.dirty:
            list.__setitem__(memory, a, 0)
        self.dirty = set(mem)
        for a, v in mem.items():
            list.__setitem__(memory, a, v)
        memory.log = []
        sim.registers[:24] = regs
        sim.registers[24:30] = fields
        tr = Tracer(ins)
        t = PartialTracer()
        has_in = tracers[0] or tracers[1] or tracers[2]
        if has_in:
            t.read_port = tr.read_port
        if tracers[3]:
            t.write_port = tr.write_port
        sim.set_tracer(t, in_r_c=bool(tracers[1]), ini=bool(tracers[2]))
        if has_in and not tracers[0]:
            sim.in_a_n_tracer = None
        try:
            sim.run(fields[0])
        except Exception as e:  # the real code must never raise on an in-range state
            self.dirty.update(a for a, _ in memory.log if 0 <= a < 65536)
            return f'exception {type(e).__name__}: {e}'
        self.dirty.update(a for a, _ in memory.log if 0 <= a < 65536)
        r = list(sim.registers)
        return (f"{' '.join(map(str, r[:24]))} ; {' '.join(map(str, r[24:30]))} ; "
                f"{' '.join(f'{p}:{v}' for p, v in tr.out_log)} ; {' '.join(map(str, tr.in_log))} ; "
                f"{' '.join(f'{a}:{v}' for a, v in memory.log)} ; 0")


def run_python(sim_cls, regs, fields, mem, ins, tracers, config=None):
    return PySim(sim_cls, config).step(regs, fields, mem, ins, tracers)


class CSim:
    """Reusable wrapper around a C simulator class (48K bytearray memory).  Observes the final
    memory (diff against the initial image) rather than the write sequence."""

    def __init__(self, sim_cls, config=None):
        self.sim = sim_cls([0] * 65536, config=dict(config) if config else None)
        self.memory = self.sim.memory
        self.dirty = set()

    def step(self, regs, fields, mem, ins, tracers):
        memory, sim = self.memory, self.sim
        for a in self.dirty:
            memory[a] = 0
        for a, v in mem.items():
            memory[a] = v
        before = bytes(memory)
        for i, v in enumerate(regs):
            sim.registers[i] = v
        for i, v in enumerate(fields):
            sim.registers[24 + i] = v
        tr = Tracer(ins)
        t = PartialTracer()
        has_in = tracers[0] or tracers[1] or tracers[2]
        if has_in:
            t.read_port = tr.read_port
        if tracers[3]:
            t.write_port = tr.write_port
        sim.set_tracer(t, bool(tracers[1]), bool(tracers[2]))
        try:
            sim.run(fields[0])
        except Exception as e:
            return f'exception {type(e).__name__}: {e}'
        after = bytes(memory)
        diffs = []
        if after != before:
            for base in range(0, 65536, 1024):
                if after[base:base + 1024] != before[base:base + 1024]:
                    diffs += [(a, after[a]) for a in range(base, base + 1024) if after[a] != before[a]]
        self.dirty = set(mem) | {a for a, _ in diffs}
        r = list(sim.registers)
        return (f"{' '.join(map(str, r[:24]))} ; {' '.join(map(str, r[24:30]))} ; "
                f"{' '.join(f'{p}:{v}' for p, v in tr.out_log)} ; {' '.join(map(str, tr.in_log))} ; "
                f"{' '.join(f'{a}:{v}' for a, v in diffs)} ; 0")


def final_diff(line, mem):
    """Rewrite the write-sequence field of an output line as the final memory diff (sorted)."""
    parts = line.split(';')
    if len(parts) != 6:
        return line
    final = {}
    for w in parts[4].split():
        a, v = w.split(':')
        final[int(a)] = int(v)
    diffs = sorted((a, v) for a, v in final.items() if mem.get(a, 0) != v)
    parts[4] = ' ' + ' '.join(f'{a}:{v}' for a, v in diffs) + ' '
    return ';'.join(parts)


def norm(line):
    return ' '.join(line.split())
