"""Shared pieces of the simulator-family checks (C05/C06/C08/C10/C19/C20): frame-position bias, the
per-step property oracle, per-slot differential execution against the generated Lean models."""
import simcorr
from framework import fresh_import


def t_bias(r):
    k = r.randrange(6)
    if k == 0:
        return r.randrange(14335 - 40, 14335 + 300)
    if k == 1:
        return r.randrange(57245 - 300, 57245 + 40)
    if k == 2:
        return 14335 + 224 * r.randrange(192) + r.randrange(-8, 140)
    if k == 3:
        return r.randrange(69888 * 3)
    if k == 4:
        return 69888 * r.randrange(1, 4) + r.randrange(40)
    return r.randrange(14000, 58000)


def check_step_oracle(regs, fields, mem, out_line):
    """The property itself on one step of a real simulator: ranges, ROM, T monotone."""
    parts = out_line.split(';')
    if len(parts) != 6:
        return 'exception', out_line[:200]
    r = list(map(int, parts[0].split()))
    f = list(map(int, parts[1].split()))
    for i, v in enumerate(r):
        hi = 65536 if i == 12 else 256
        if not 0 <= v < hi:
            return 'register-range', f'register {i} = {v}'
    if not 0 <= f[0] < 65536:
        return 'pc-range', f'PC = {f[0]}'
    if f[1] < fields[1]:
        return 'clock-decreased', f'T {fields[1]} -> {f[1]}'
    if f[2] not in (0, 1) or f[3] not in (0, 1, 2) or f[4] not in (0, 1) or not 0 <= f[5] < 65536:
        return 'state-range', f'IFF/IM/HALT/MEMPTR = {f[2:6]}'
    for w in parts[4].split():
        a, v = map(int, w.split(':'))
        if a < 0x4000:
            return 'rom-write', f'write {v} to ROM address {a}'
        if not 0 <= v < 256:
            return 'cell-range', f'memory[{a}] = {v}'
    return None


def single_step(chk, impls):
    """Per-slot differential execution of the real simulators against the generated models, plus the
    property's oracle on every real result."""
    rng = chk.rng
    n = chk.scale(3, 40)
    for name, wrapper, driver, is_c in impls:
        ops, outs, mems, states = [], [], [], []
        for tbl, op in simcorr.all_slots():
            for st in list(simcorr.rand_state(rng, tbl, op, t_bias=t_bias) for _ in range(n)) + list(counter_sweep(rng, tbl, op)):
                if is_c:
                    st[4][0] = 1 if (st[4][0] or st[4][1] or st[4][2]) else 0
                ops.append(simcorr.op_line(*st))
                out = wrapper.step(*st)
                outs.append(out)
                mems.append(st[2])
                states.append(st)
                bad = check_step_oracle(st[0], st[1], st[2], out)
                chk.case(f'{name}:{tbl}', (name, tbl, op, tuple(st[0]), tuple(st[1])),
                         {'impl': name, 'slot': f'{tbl}:{op:02X}', 'pc': st[1][0], 't': st[1][1]} if op == 0x86 else None)
                if bad:
                    chk.violation(f'{bad[0]}:{name}:{tbl}:{op:02X}', f'{name} slot {tbl} {op:02X}: {bad[1]}',
                                  {'kind': 'step', 'impl': name, 'state': [st[0], st[1], {str(k): v for k, v in st[2].items()}, st[3], st[4]]})
        model = chk.run_driver(driver, ops)
        if model is None:
            continue
        if is_c:
            model = [simcorr.final_diff(b, m) for b, m in zip(model, mems)]
        chk.compare(f'{name} vs generated model ({driver})', ops, [simcorr.norm(a) for a in outs], [simcorr.norm(b) for b in model])




COUNTER_SLOTS = {('ED', o) for o in (0xA0, 0xA1, 0xA2, 0xA3, 0xA8, 0xA9, 0xAA, 0xAB, 0xB0, 0xB1, 0xB2, 0xB3, 0xB8, 0xB9, 0xBA, 0xBB)} | {('MAIN', 0x10)}
REGIONS = (0x0000, 0x3FFF, 0x4000, 0x7FFF, 0x8000, 0xBFFF, 0xC000, 0xFFFF)


def counter_sweep(rng, tbl, op):
    """Block instructions and DJNZ: every combination of boundary loop-counter values (BC = 0, 1, 2, 0x100,
    0x101, 0xFFFF) with source/destination pointers in each memory region, at frame positions inside the
    contended window (the repeat/exit decision and the contention pattern both depend on the counter)."""
    if (tbl, op) not in COUNTER_SLOTS:
        return
    for bc in (0x0000, 0x0001, 0x0002, 0x0100, 0x0101, 0xFFFF):
        for hl in REGIONS[1::2]:
            for de in REGIONS[::2]:
                regs, fields, mem, ins, tracers = simcorr.rand_state(rng, tbl, op, t_bias=t_bias)
                regs[2], regs[3] = bc >> 8, bc & 255
                regs[6], regs[7] = hl >> 8, hl & 255
                regs[4], regs[5] = de >> 8, de & 255
                fields[1] = 14335 + 224 * rng.randrange(192) + rng.randrange(128) + 69888 * rng.randrange(2)
                fields[0] = rng.choice((0x4000, 0x7FF0, 0x8000, 0xC000))
                for a in list(mem):
                    del mem[a]
                for k, b in enumerate(simcorr.slot_bytes(tbl, op, rng)):
                    mem[(fields[0] + k) % 65536] = b
                mem[hl] = rng.randrange(256)
                yield regs, fields, mem, ins, tracers


def suspect_slots(chk):
    """Closures whose generated Lean text differs from the committed (clean-tree) version -> the
    dispatch slots that call them; dispatch rows that changed are suspects too.  Used for the
    directed search after a broken proof / correspondence."""
    import os, re, subprocess
    from framework import LEAN_DIR, VERIF
    slots = {}
    hit = set()
    for fn in ('SimHandlers.lean', 'CmioHandlers.lean'):
        rel = os.path.join('lean', 'SkoolVerif', 'Gen', fn)
        try:
            new = open(os.path.join(VERIF, rel)).read()
            old = subprocess.run(['git', '-C', VERIF, 'show', 'HEAD:' + rel], capture_output=True, text=True).stdout
        except OSError:
            continue
        def defs(text):
            d = {}
            for m in re.finditer(r'^@\[sim_handler\] def (\w+)(.*?)(?=^@\[sim_handler\] def |^inductive )', text, re.S | re.M):
                d[m.group(1)] = m.group(2)
            return d
        a, b = defs(old), defs(new)
        hit |= {n for n in b if a.get(n) != b[n]}
        def rows(text):
            r = {}
            for m in re.finditer(r'def tbl_(\w+) : Array Instr := #\[(.*?)\n\]', text, re.S):
                r[m.group(1)] = [l.strip().rstrip(',') for l in m.group(2).strip().split('\n')]
            return r
        ra, rb = rows(old), rows(new)
        for tbl, lines in rb.items():
            for op, line in enumerate(lines):
                mm = re.match(r'\.(\w+)', line)
                if (mm and mm.group(1) in hit) or (tbl in ra and op < len(ra[tbl]) and ra[tbl][op] != line):
                    slots[(tbl, op)] = line
    if slots:
        chk.note('directed search: closures whose translation changed vs the committed tree: ' + (', '.join(sorted(hit)) or '(dispatch rows only)')
                 + f'; {len(slots)} slots')
    return sorted(slots)


def directed_states(rng, tbl, op, n):
    """States for a suspect slot: every combination of boundary values for the operand bytes, plus
    boundary-biased random states."""
    import itertools
    B = (0x00, 0x01, 0x3F, 0x40, 0x7F, 0x80, 0xBF, 0xC0, 0xFE, 0xFF)
    count = 0
    for o1, o2 in itertools.product(B, B):
        regs, fields, mem, ins, tracers = simcorr.rand_state(rng, tbl, op, t_bias=t_bias)
        pc = fields[0]
        k0 = len(simcorr.PREFIXES[tbl]) + (0 if len(simcorr.PREFIXES[tbl]) == 2 else 1)
        mem[(pc + k0) % 65536] = o1
        mem[(pc + k0 + 1) % 65536] = o2
        if len(simcorr.PREFIXES[tbl]) == 2:
            mem[(pc + 2) % 65536] = o1
        yield regs, fields, mem, ins, tracers
        count += 1
    for _ in range(n):
        yield simcorr.rand_state(rng, tbl, op, t_bias=t_bias)


def c_suspect_slots(chk):
    """C handlers whose translation (Gen/CH/<h>.lean plain build, Gen/CCmioH/<h>.lean contended build) differs
    from the committed (clean-tree) version -> the slots of the C dispatch table that call them; rows of
    Gen/CDispatch.lean that changed are suspects too.  -> sorted [(tbl, op)]"""
    import os, re, subprocess
    from framework import VERIF
    gen = os.path.join('lean', 'SkoolVerif', 'Gen')
    hit = set()
    for sub in ('CH', 'CCmioH'):
        d = os.path.join(VERIF, gen, sub)
        if not os.path.isdir(d):
            continue
        for fn in sorted(os.listdir(d)):
            if not fn.endswith('.lean'):
                continue
            try:
                new = open(os.path.join(d, fn)).read()
            except OSError:
                continue
            p = subprocess.run(['git', '-C', VERIF, 'show', f'HEAD:{gen}/{sub}/{fn}'], capture_output=True, text=True)
            if p.returncode != 0 or p.stdout != new:
                hit.add(fn[:-5])
    rel = os.path.join(gen, 'CDispatch.lean')
    try:
        new = open(os.path.join(VERIF, rel)).read()
    except OSError:
        new = ''
    old = subprocess.run(['git', '-C', VERIF, 'show', 'HEAD:' + rel], capture_output=True, text=True).stdout

    def rows(text):
        r = {}
        for m in re.finditer(r'def tbl_(\w+) : Array Instr := #\[(.*?)\n\]', text, re.S):
            r[m.group(1)] = [l.strip().rstrip(',') for l in m.group(2).strip().split('\n')]
        return r
    ra, rb = rows(old), rows(new)
    slots = {}
    for tbl, lines in rb.items():
        for op, line in enumerate(lines):
            mm = re.match(r'\.(\w+)', line)
            if (mm and mm.group(1) in hit) or (tbl in ra and op < len(ra[tbl]) and ra[tbl][op] != line):
                slots[(tbl, op)] = line
    if slots:
        chk.note('directed search: C handlers whose translation changed vs the committed tree: ' + (', '.join(sorted(hit)) or '(dispatch rows only)')
                 + f'; {len(slots)} slots')
    return sorted(slots)


ADDR_EDGES = (0x0000, 0x0001, 0x0002, 0x3FFD, 0x3FFE, 0x3FFF, 0x4000, 0x4001, 0x4002, 0x7FFE, 0x7FFF, 0x8000, 0x8001,
              0xBFFF, 0xC000, 0xC001, 0xFFFD, 0xFFFE, 0xFFFF)


def edge_states(rng, tbl, op, frame=69888, int_active=32, light=False):
    """Deterministic edge sweep for a suspect slot.  (a) every address the instruction can form from a register
    pair, SP or an nn operand, placed on every 16K-region / 64K edge (HL, DE, BC, IX, IY, SP and nn all set to the
    edge value; displacement bytes 0, 1, -1, 127, -128), with the code away from the operands; (b) PC on the same
    edges; (c) loop counters 0/1/2 and R at its 7-bit wrap; (d) the clock placed so that the instruction ends on,
    just before and just after the end of the interrupt window (IFF set), and on the frame boundary."""
    def base(pc=None):
        regs, fields, mem, ins, tracers = simcorr.rand_state(rng, tbl, op, t_bias=t_bias)
        if pc is not None:
            old = fields[0]
            code = [mem.get((old + j) % 65536, 0) for j in range(4)]
            for j in range(4):
                mem.pop((old + j) % 65536, None)
            for j, b in enumerate(code):
                mem[(pc + j) % 65536] = b
            fields[0] = pc
        return regs, fields, mem, ins, tracers

    two = len(simcorr.PREFIXES[tbl]) == 2
    k0 = len(simcorr.PREFIXES[tbl]) + (0 if two else 1)          # index of the first operand byte
    for v in ADDR_EDGES:
        for d in ((0x00, 0x01) if light else (0x00, 0x01, 0xFF, 0x7F, 0x80)):
            pc = 0x9000 if 0x8F00 <= v <= 0x9100 else rng.choice((0x9000, 0x6000, 0xA123))
            regs, fields, mem, ins, tracers = base(pc)
            for hi, lo in ((6, 7), (4, 5), (2, 3), (8, 9), (10, 11)):
                regs[hi], regs[lo] = v >> 8, v & 255
            regs[12] = v
            if two or tbl in ('DD', 'FD'):
                mem[(pc + 2) % 65536] = d
                if not two:
                    mem[(pc + 3) % 65536] = rng.randrange(256)
            if not two and d in (0x00, 0x01):
                # nn operand = the edge value (LD (nn),rr / LD rr,(nn) / JP / CALL ...)
                mem[(pc + k0) % 65536] = v & 255
                mem[(pc + k0 + 1) % 65536] = v >> 8
                if tbl in ('DD', 'FD') and d == 0x01:
                    mem[(pc + 2) % 65536] = v & 255
                    mem[(pc + 3) % 65536] = v >> 8
            for a in (v - 2, v - 1, v, v + 1, v + 2):
                mem.setdefault(a % 65536, rng.randrange(256))
            yield regs, fields, mem, ins, tracers
    for pc in ADDR_EDGES:
        yield base(pc)
    for b in (0, 1, 2):
        for c in (0, 1, 0xFF):
            for r in (0x7E, 0x7F, 0xFE, 0xFF):
                regs, fields, mem, ins, tracers = base()
                regs[2], regs[3], regs[15] = b, c, r
                yield regs, fields, mem, ins, tracers
    for dur in range(4, 24):
        for dt in ((0,) if light else (-1, 0, 1)):
            for t in (frame * rng.randrange(1, 3) + int_active - dur + dt, frame * rng.randrange(1, 3) - dur + dt):
                regs, fields, mem, ins, tracers = base(rng.choice((0x9000, 0x6000)))
                fields[1] = t
                fields[2] = 1
                regs[2] = rng.choice((1, 2, regs[2]))
                yield regs, fields, mem, ins, tracers


def guarded(chk, group, fn, *args, **kw):
    """Run one e2e group; an exception raised INSIDE the code under test (innermost frames in REPO) is a
    violation (the real code must not raise on the inputs the groups generate), not a harness failure."""
    import os, traceback
    from framework import REPO, Infra
    try:
        return fn(*args, **kw)
    except Infra:
        raise
    except Exception as e:
        tb = traceback.extract_tb(e.__traceback__)
        root = os.path.realpath(REPO) + os.sep
        inner = [f for f in tb if os.path.realpath(f.filename).startswith(root)]
        if not inner and tb and any(c in (tb[-1].line or '') for c in ('.run(', '.accept_interrupt(', '.set_tracer(', '.exec_frame(', '.trace(')):
            inner = [tb[-1]]             # raised by the C extension itself (no Python frame of its own)
        if not inner:
            raise
        f = inner[-1]
        chk.violation(f'exception:{group}:{os.path.basename(f.filename)}:{f.name}',
                      f'{group}: the code under test raised {type(e).__name__}: {e} at {os.path.basename(f.filename)}:{f.lineno} `{f.line}`',
                      {'kind': 'group-exception', 'group': group})
        return None


# ---- the speed-up closures Simulator.djnz_fast / ldir_fast (config fast_djnz / fast_ldir: trace.py without -v, #SIM,
#      #AUDIO, #TSTATES): not translated (they execute a whole loop per call); checked here against the per-iteration
#      closures and the property oracles ------------------------------------------------------------------------------

def fast_cases(rng, n):
    """-> (kind, regs, fields, mem): DJNZ loops to itself and LDIR/LDDR blocks with IFF 0/1, boundary counters, R at its
    7-bit wrap, destination crossing the ROM boundary / the 64K wrap / the instruction itself, overlapping source."""
    B8 = (0, 1, 2, 3, 0x7F, 0x80, 0xFE, 0xFF)
    for k in range(n):
        kind = ('djnz', 'ldir', 'lddr')[k % 3]
        regs = [rng.randrange(256) for _ in range(24)]
        regs[13] = 0
        regs[12] = rng.randrange(65536)
        regs[15] = rng.choice((0x00, 0x7E, 0x7F, 0x80, 0xFE, 0xFF, rng.randrange(256)))
        pc = rng.choice((0x8000, 0x8000, 0xFFFE, 0xFFFF, 0x3FFE, 0x4000, 0x7FFF, rng.randrange(65536)))
        fields = [pc, t_bias(rng), 0 if rng.randrange(5) else 1, rng.randrange(3), 0, rng.randrange(65536)]
        mem = {}
        if kind == 'djnz':
            mem[pc] = 0x10
            mem[(pc + 1) % 65536] = 0xFE if rng.randrange(6) else rng.choice((0x00, 0xFD, 0xFF, 0x7F, 0x80))
            regs[2] = rng.choice(B8 + (rng.randrange(256),))
        else:
            inc = 1 if kind == 'ldir' else -1
            mem[pc] = 0xED
            mem[(pc + 1) % 65536] = 0xB0 if kind == 'ldir' else 0xB8
            bc = rng.choice((1, 2, 3, 5, 9, 0x10, 0x101, rng.randrange(1, 0x300)))
            if rng.randrange(40) == 0:
                bc = rng.choice((0, 0xFFFF))
            c = rng.randrange(7)
            if c == 0:      # destination crosses the ROM boundary
                de = (0x4000 - inc * rng.randrange(0, min(bc, 6) + 1) - (1 if inc > 0 else 0)) % 65536
            elif c == 1:    # destination crosses the 64K wrap
                de = (0x10000 - inc * rng.randrange(0, min(bc, 6) + 1) - (1 if inc > 0 else 0)) % 65536
            elif c == 2:    # destination runs into the instruction itself
                de = (pc - inc * rng.randrange(0, min(bc, 8) + 1) + rng.randrange(2)) % 65536
            elif c == 3:    # all in ROM
                de = rng.randrange(0x3F00)
            else:
                de = rng.choice((0x4000, 0x5800, 0x7FFF, 0xC000, rng.randrange(0x4000, 65536)))
            hl = rng.choice(((de - inc) % 65536, (de + inc) % 65536, de, rng.randrange(65536), rng.randrange(0x4000)))
            regs[2], regs[3] = bc >> 8, bc & 255
            regs[4], regs[5] = de >> 8, de & 255
            regs[6], regs[7] = hl >> 8, hl & 255
            n_it = bc or 65536
            for j in range(min(n_it, 40)):
                mem.setdefault((hl + inc * j) % 65536, rng.randrange(256))
        yield kind, regs, fields, mem


class FastRunner:
    """One Simulator per configuration on a logging 48K memory, reset per case."""

    def __init__(self, sim_cls, config, is_c=False):
        self.is_c = is_c
        if is_c:
            self.sim = sim_cls([0] * 65536, config=dict(config) if config else None)
            self.memory = self.sim.memory
        else:
            self.memory = simcorr.LogMem([0] * 65536)
            self.sim = sim_cls(self.memory, config=dict(config) if config else None)
        self.dirty = set()

    def load(self, regs, fields, mem):
        m = self.memory
        for a in self.dirty:
            if self.is_c:
                m[a] = 0
            else:
                list.__setitem__(m, a, 0)
        self.dirty = set(mem)
        for a, v in mem.items():
            if self.is_c:
                m[a] = v
            else:
                list.__setitem__(m, a, v)
        if not self.is_c:
            m.log = []
        r = self.sim.registers
        for i, v in enumerate(regs):
            r[i] = v
        for i, v in enumerate(fields):
            r[24 + i] = v
        self.before = bytes(m) if self.is_c else None

    def step(self):
        self.sim.run(self.sim.registers[24])

    def result(self):
        r = list(self.sim.registers)
        if self.is_c:
            after = bytes(self.memory)
            cells = {}
            if after != self.before:
                for base in range(0, 65536, 1024):
                    if after[base:base + 1024] != self.before[base:base + 1024]:
                        cells.update({a: after[a] for a in range(base, base + 1024) if after[a] != self.before[a]})
            self.dirty |= set(cells)
            return r, cells, []
        log = list(self.memory.log)
        self.dirty |= {a for a, _ in log if 0 <= a < 65536}
        cells = {}
        for a, v in log:
            cells[a] = v
        return r, cells, log


def fast_vs_iterated(chk, sim_cls, c_cls, only=None, oracle_only=False):
    """Simulator(config fast_djnz/fast_ldir) executes DJNZ-to-itself / LDIR / LDDR in one call.  (a) the property
    oracle of C08 on that call: no ROM write, every register / cell in range, clock not decreasing; (b) C06: the same
    final state (all registers incl. R and T, PC, memory) as the per-iteration closure executed until the loop counter
    reaches the same value, on the Python simulator without the option and on the C simulator (which has no such option).
    -> list of (key, description, replay) findings; the caller decides which belong to its property."""
    rng = chk.rng
    fast = FastRunner(sim_cls, {'fast_djnz': True, 'fast_ldir': True})
    slow = FastRunner(sim_cls, None)
    cs = FastRunner(c_cls, None, is_c=True) if c_cls is not None else None
    found = []
    cases = [only] if only else fast_cases(rng, chk.scale(450, 6000))
    for kind, regs, fields, mem in cases:
        mem = {int(k): v for k, v in mem.items()}
        rep = {'kind': 'fast', 'case': [kind, regs, fields, {str(k): v for k, v in mem.items()}]}
        chk.case(f'fast:{kind}', (kind, tuple(regs), tuple(fields)), {'loop': kind, 'pc': fields[0], 'B': regs[2], 'C': regs[3], 'DE': regs[5] + 256 * regs[4], 'iff': fields[2]} if kind == 'ldir' and len(chk.samples) < 11 else None)
        fast.load(regs, fields, mem)
        try:
            fast.step()
        except Exception as e:
            found.append(('oracle', f'exception:py-fast:{kind}', f'Simulator(fast) {kind}: {type(e).__name__}: {e}', rep))
            fast.dirty = set(range(0, 65536, 1))
            fast = FastRunner(sim_cls, {'fast_djnz': True, 'fast_ldir': True})
            continue
        fr, fcells, flog = fast.result()
        bad = None
        for i, v in enumerate(fr[:24]):
            if not 0 <= v < (65536 if i == 12 else 256):
                bad = ('register-range', f'register {i} = {v}')
        if not 0 <= fr[24] < 65536:
            bad = ('pc-range', f'PC = {fr[24]}')
        if fr[25] < fields[1]:
            bad = ('clock-decreased', f'T {fields[1]} -> {fr[25]}')
        for a, v in flog:
            if a < 0x4000:
                bad = ('rom-write', f'write {v} to ROM address {a}')
            elif not 0 <= v < 256:
                bad = ('cell-range', f'memory[{a}] = {v}')
        if bad:
            found.append(('oracle', f'{bad[0]}:py-fast:{kind}', f'Simulator(fast_djnz/fast_ldir) {kind} at {fields[0]} B={regs[2]} C={regs[3]} DE={regs[5] + 256 * regs[4]}: {bad[1]}', rep))
        if oracle_only:
            continue
        # per-iteration references, stepped until the loop counter equals the fast result's (at least once)
        target = (fr[2],) if kind == 'djnz' else (fr[2], fr[3])
        for name, ref in (('py-plain', slow), ('c-plain', cs)):
            if ref is None:
                continue
            ref.load(regs, fields, mem)
            steps = 0
            try:
                while True:
                    ref.step()
                    steps += 1
                    rr = ref.sim.registers
                    cur = (rr[2],) if kind == 'djnz' else (rr[2], rr[3])
                    if cur == target or steps > 70000:
                        break
            except Exception as e:
                found.append(('pair', f'exception:{name}:{kind}', f'{name} {kind}: {type(e).__name__}: {e}', rep))
                continue
            rr, rcells, _ = ref.result()
            fm = {a: v for a, v in fcells.items() if mem.get(a, 0) != v}
            rm = {a: v for a, v in rcells.items() if mem.get(a, 0) != v}
            if fr[:29] != rr[:29] or fm != rm:
                diff = [i for i in range(29) if fr[i] != rr[i]]
                md = sorted(set(fm.items()) ^ set(rm.items()))[:6]
                found.append(('pair', f'py-fast-vs-{name}:{kind}', f'Simulator with fast_djnz/fast_ldir vs {name} stepped {steps} time(s), {kind} at PC={fields[0]} B={regs[2]} C={regs[3]} '
                              f'DE={regs[5] + 256 * regs[4]} HL={regs[7] + 256 * regs[6]} IFF={fields[2]}: registers {diff} differ ({[fr[i] for i in diff]} vs {[rr[i] for i in diff]}); memory differences {md}', rep))
    return found


CLOCK_SLOTS = {('MAIN', 0x76): 4, ('ED', 0x57): 9, ('ED', 0x5F): 9}     # HALT, LD A,I, LD A,R: T-states before the clock is read


def window_states(rng, tbl, op, frame=69888, int_active=32):
    """HALT and LD A,I / LD A,R read the clock after adding their own T-states and compare it with the end of the
    interrupt window: every run, the instruction ending one before / exactly on / one after the end of the window and
    on the frame boundary, with IFF set and reset, halted and not (outside the contended part of the frame, so the
    contended simulators add no delay)."""
    dur = CLOCK_SLOTS.get((tbl, op))
    if dur is None:
        return
    for k in (0, 1, 3):
        for end in (int_active - 1, int_active, int_active + 1, 0, frame - 1, 1):
            for iff in (1, 0):
                regs, fields, mem, ins, tracers = simcorr.rand_state(rng, tbl, op, t_bias=t_bias)
                fields[1] = frame * (k + 1) + end - dur
                fields[2] = iff
                if tbl == 'MAIN':
                    fields[4] = rng.randrange(2)
                yield regs, fields, mem, ins, tracers


GRID16 = (0x0000, 0x0001, 0x0FFF, 0x1000, 0x7FFF, 0x8000, 0x8001, 0xFFFE, 0xFFFF)
GRID8 = (0x00, 0x01, 0x0F, 0x10, 0x7F, 0x80, 0xFF)
GRID16_T = (0x0000, 0x0001, 0x00FF, 0x0100, 0x0FFF, 0x1000, 0x3FFF, 0x4000, 0x7FFF, 0x8000, 0x8001, 0xEFFF, 0xF000, 0xFFFE, 0xFFFF)
GRID8_T = (0x00, 0x01, 0x0F, 0x10, 0x7F, 0x80, 0x99, 0x9A, 0xF0, 0xFF)
# slots whose flags the simulators compute by hand (no lookup table): 16-bit arithmetic, block
# instructions, RLD/RRD - the C bodies repeat these formulas independently of the Python ones
ARITH16 = ([('MAIN', o) for o in (0x09, 0x19, 0x29, 0x39)] + [('DD', o) for o in (0x09, 0x19, 0x29, 0x39)]
           + [('FD', o) for o in (0x09, 0x19, 0x29, 0x39)]
           + [('ED', o) for o in (0x42, 0x52, 0x62, 0x72, 0x4A, 0x5A, 0x6A, 0x7A)])
BLOCK8 = [('ED', o) for o in (0xA0, 0xA1, 0xA2, 0xA3, 0xA8, 0xA9, 0xAA, 0xAB, 0xB0, 0xB1, 0xB2, 0xB3, 0xB8, 0xB9, 0xBA, 0xBB,
                              0x67, 0x6F)]


def operand_grids(rng, thorough=False, counters=(0, 1, 2, 0x100, 0x101, 0xFFFF)):
    """Directed operand grids: all pairs of 16-bit boundary operands x carry for the 16-bit arithmetic slots;
    A x (HL) x counter boundaries for block instructions and RLD/RRD.  -> ((tbl, op), state)"""
    g16 = GRID16_T if thorough else GRID16
    g8 = GRID8_T if thorough else GRID8
    for tbl, op in ARITH16:
        dst = {'MAIN': (6, 7), 'ED': (6, 7), 'DD': (8, 9), 'FD': (10, 11)}[tbl]
        src = ((2, 3), (4, 5), dst, None)[(op >> 4) & 3]
        for x in g16:
            for y in g16:
                if src == dst and x != y:
                    continue
                for cf in (0, 1):
                    regs, fields, mem, ins, tracers = simcorr.rand_state(rng, tbl, op, t_bias=t_bias)
                    regs[dst[0]], regs[dst[1]] = x >> 8, x & 255
                    if src is None:
                        regs[12] = y
                    else:
                        regs[src[0]], regs[src[1]] = y >> 8, y & 255
                    regs[1] = (regs[1] & 0xFE) | cf
                    tracers[0] = 1 if (tracers[0] or tracers[1] or tracers[2]) else 0
                    yield (tbl, op), (regs, fields, mem, ins, tracers)
    for tbl, op in BLOCK8:
        for a in g8:
            for v in g8:
                for bc in counters:
                    regs, fields, mem, ins, tracers = simcorr.rand_state(rng, tbl, op, t_bias=t_bias)
                    regs[0] = a
                    regs[2], regs[3] = bc >> 8, bc & 255
                    hl = regs[7] + 256 * regs[6]
                    pc = fields[0]
                    if hl in (pc, (pc + 1) % 65536) or hl < 0x4000:
                        continue
                    mem[hl] = v
                    ins = [v, ins[1]]
                    tracers[0] = 1 if (tracers[0] or tracers[1] or tracers[2]) else 0
                    yield (tbl, op), (regs, fields, mem, ins, tracers)


def build_impls(chk):
    """The four real implementations, wrapped for single-step execution."""
    simulator, cmiosimulator = fresh_import('skoolkit.simulator', 'skoolkit.cmiosimulator')
    import cbuild
    CS, CC = cbuild.build(chk.scratch)
    impls = [('py-plain', simcorr.PySim(simulator.Simulator), 'Sim', False),
             ('py-cmio', simcorr.PySim(cmiosimulator.CMIOSimulator), 'Cmio', False),
             ('c-plain', simcorr.CSim(CS), 'Sim', True),
             ('c-cmio', simcorr.CSim(CC), 'Cmio', True)]
    classes = [('py-plain', simulator.Simulator), ('py-cmio', cmiosimulator.CMIOSimulator), ('c-plain', CS), ('c-cmio', CC)]
    return impls, classes
