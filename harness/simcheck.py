"""Shared pieces of the simulator-family checks (C05/C06/C08/C10/C19/C20): frame-position bias, the
per-step property oracle, per-slot differential execution against the generated Lean models."""
import simcorr
from framework import fresh_import


def t_bias(r):
    k = r.randrange(6)
    if k == 0:
        return r.randrange(14335 - 40, 14335 + 300)
    if k == 1:
        return r.randrange(57245 - 300, 57245 + 40)
    if k == 2:
        return 14335 + 224 * r.randrange(192) + r.randrange(-8, 140)
    if k == 3:
        return r.randrange(69888 * 3)
    if k == 4:
        return 69888 * r.randrange(1, 4) + r.randrange(40)
    return r.randrange(14000, 58000)


def check_step_oracle(regs, fields, mem, out_line):
    """The property itself on one step of a real simulator: ranges, ROM, T monotone."""
    parts = out_line.split(';')
    if len(parts) != 6:
        return 'exception', out_line[:200]
    r = list(map(int, parts[0].split()))
    f = list(map(int, parts[1].split()))
    for i, v in enumerate(r):
        hi = 65536 if i == 12 else 256
        if not 0 <= v < hi:
            return 'register-range', f'register {i} = {v}'
    if not 0 <= f[0] < 65536:
        return 'pc-range', f'PC = {f[0]}'
    if f[1] < fields[1]:
        return 'clock-decreased', f'T {fields[1]} -> {f[1]}'
    if f[2] not in (0, 1) or f[3] not in (0, 1, 2) or f[4] not in (0, 1) or not 0 <= f[5] < 65536:
        return 'state-range', f'IFF/IM/HALT/MEMPTR = {f[2:6]}'
    for w in parts[4].split():
        a, v = map(int, w.split(':'))
        if a < 0x4000:
            return 'rom-write', f'write {v} to ROM address {a}'
        if not 0 <= v < 256:
            return 'cell-range', f'memory[{a}] = {v}'
    return None


def single_step(chk, impls):
    """Per-slot differential execution of the real simulators against the generated models, plus the
    property's oracle on every real result."""
    rng = chk.rng
    n = chk.scale(3, 40)
    for name, wrapper, driver, is_c in impls:
        ops, outs, mems, states = [], [], [], []
        for tbl, op in simcorr.all_slots():
            for st in list(simcorr.rand_state(rng, tbl, op, t_bias=t_bias) for _ in range(n)) + list(counter_sweep(rng, tbl, op)):
                if is_c:
                    st[4][0] = 1 if (st[4][0] or st[4][1] or st[4][2]) else 0
                ops.append(simcorr.op_line(*st))
                out = wrapper.step(*st)
                outs.append(out)
                mems.append(st[2])
                states.append(st)
                bad = check_step_oracle(st[0], st[1], st[2], out)
                chk.case(f'{name}:{tbl}', (name, tbl, op, tuple(st[0]), tuple(st[1])),
                         {'impl': name, 'slot': f'{tbl}:{op:02X}', 'pc': st[1][0], 't': st[1][1]} if op == 0x86 else None)
                if bad:
                    chk.violation(f'{bad[0]}:{name}:{tbl}:{op:02X}', f'{name} slot {tbl} {op:02X}: {bad[1]}',
                                  {'kind': 'step', 'impl': name, 'state': [st[0], st[1], {str(k): v for k, v in st[2].items()}, st[3], st[4]]})
        model = chk.run_driver(driver, ops)
        if model is None:
            continue
        if is_c:
            model = [simcorr.final_diff(b, m) for b, m in zip(model, mems)]
        chk.compare(f'{name} vs generated model ({driver})', ops, [simcorr.norm(a) for a in outs], [simcorr.norm(b) for b in model])




COUNTER_SLOTS = {('ED', o) for o in (0xA0, 0xA1, 0xA2, 0xA3, 0xA8, 0xA9, 0xAA, 0xAB, 0xB0, 0xB1, 0xB2, 0xB3, 0xB8, 0xB9, 0xBA, 0xBB)} | {('MAIN', 0x10)}
REGIONS = (0x0000, 0x3FFF, 0x4000, 0x7FFF, 0x8000, 0xBFFF, 0xC000, 0xFFFF)


def counter_sweep(rng, tbl, op):
    """Block instructions and DJNZ: every combination of boundary loop-counter values (BC = 0, 1, 2, 0x100,
    0x101, 0xFFFF) with source/destination pointers in each memory region, at frame positions inside the
    contended window (the repeat/exit decision and the contention pattern both depend on the counter)."""
    if (tbl, op) not in COUNTER_SLOTS:
        return
    for bc in (0x0000, 0x0001, 0x0002, 0x0100, 0x0101, 0xFFFF):
        for hl in REGIONS[1::2]:
            for de in REGIONS[::2]:
                regs, fields, mem, ins, tracers = simcorr.rand_state(rng, tbl, op, t_bias=t_bias)
                regs[2], regs[3] = bc >> 8, bc & 255
                regs[6], regs[7] = hl >> 8, hl & 255
                regs[4], regs[5] = de >> 8, de & 255
                fields[1] = 14335 + 224 * rng.randrange(192) + rng.randrange(128) + 69888 * rng.randrange(2)
                fields[0] = rng.choice((0x4000, 0x7FF0, 0x8000, 0xC000))
                for a in list(mem):
                    del mem[a]
                for k, b in enumerate(simcorr.slot_bytes(tbl, op, rng)):
                    mem[(fields[0] + k) % 65536] = b
                mem[hl] = rng.randrange(256)
                yield regs, fields, mem, ins, tracers


def suspect_slots(chk):
    """Closures whose generated Lean text differs from the committed (clean-tree) version -> the
    dispatch slots that call them; dispatch rows that changed are suspects too.  Used for the
    directed search after a broken proof / correspondence."""
    import os, re, subprocess
    from framework import LEAN_DIR, VERIF
    slots = {}
    hit = set()
    for fn in ('SimHandlers.lean', 'CmioHandlers.lean'):
        rel = os.path.join('lean', 'SkoolVerif', 'Gen', fn)
        try:
            new = open(os.path.join(VERIF, rel)).read()
            old = subprocess.run(['git', '-C', VERIF, 'show', 'HEAD:' + rel], capture_output=True, text=True).stdout
        except OSError:
            continue
        def defs(text):
            d = {}
            for m in re.finditer(r'^@\[sim_handler\] def (\w+)(.*?)(?=^@\[sim_handler\] def |^inductive )', text, re.S | re.M):
                d[m.group(1)] = m.group(2)
            return d
        a, b = defs(old), defs(new)
        hit |= {n for n in b if a.get(n) != b[n]}
        def rows(text):
            r = {}
            for m in re.finditer(r'def tbl_(\w+) : Array Instr := #\[(.*?)\n\]', text, re.S):
                r[m.group(1)] = [l.strip().rstrip(',') for l in m.group(2).strip().split('\n')]
            return r
        ra, rb = rows(old), rows(new)
        for tbl, lines in rb.items():
            for op, line in enumerate(lines):
                mm = re.match(r'\.(\w+)', line)
                if (mm and mm.group(1) in hit) or (tbl in ra and op < len(ra[tbl]) and ra[tbl][op] != line):
                    slots[(tbl, op)] = line
    if slots:
        chk.note('directed search: closures whose translation changed vs the committed tree: ' + (', '.join(sorted(hit)) or '(dispatch rows only)')
                 + f'; {len(slots)} slots')
    return sorted(slots)


def directed_states(rng, tbl, op, n):
    """States for a suspect slot: every combination of boundary values for the operand bytes, plus
    boundary-biased random states."""
    import itertools
    B = (0x00, 0x01, 0x3F, 0x40, 0x7F, 0x80, 0xBF, 0xC0, 0xFE, 0xFF)
    count = 0
    for o1, o2 in itertools.product(B, B):
        regs, fields, mem, ins, tracers = simcorr.rand_state(rng, tbl, op, t_bias=t_bias)
        pc = fields[0]
        k0 = len(simcorr.PREFIXES[tbl]) + (0 if len(simcorr.PREFIXES[tbl]) == 2 else 1)
        mem[(pc + k0) % 65536] = o1
        mem[(pc + k0 + 1) % 65536] = o2
        if len(simcorr.PREFIXES[tbl]) == 2:
            mem[(pc + 2) % 65536] = o1
        yield regs, fields, mem, ins, tracers
        count += 1
    for _ in range(n):
        yield simcorr.rand_state(rng, tbl, op, t_bias=t_bias)


def build_impls(chk):
    """The four real implementations, wrapped for single-step execution."""
    simulator, cmiosimulator = fresh_import('skoolkit.simulator', 'skoolkit.cmiosimulator')
    import cbuild
    CS, CC = cbuild.build(chk.scratch)
    impls = [('py-plain', simcorr.PySim(simulator.Simulator), 'Sim', False),
             ('py-cmio', simcorr.PySim(cmiosimulator.CMIOSimulator), 'Cmio', False),
             ('c-plain', simcorr.CSim(CS), 'Sim', True),
             ('c-cmio', simcorr.CSim(CC), 'Cmio', True)]
    classes = [('py-plain', simulator.Simulator), ('py-cmio', cmiosimulator.CMIOSimulator), ('c-plain', CS), ('c-cmio', CC)]
    return impls, classes
