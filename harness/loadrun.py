"""Tie of the LOAD translations (translate/pyload2lean.py, translate/cload2lean.py) to the real code, on every run (C13).

* `regen_load(chk)`: re-translates loadtracer.py (`DEC`/`DEC0`/`INC0`, `LoadTracer.dec_a(...).func`, ...) into `Gen/PyLoad.lean` and
  the load functions of c/csimulator.c (`dec_a`, ...) into `Gen/CLoad/*.lean`; an unsupported construct or a changed piece of
  exact-text boilerplate is a translator break.
* `deca_correspondence(chk, ...)`: the translated `DEC A` hooks run by `Drivers/Load.lean` against
    - the REAL closure `LoadTracer.dec_a(jr, jp)()` called directly on a real `Simulator` (registers, PC, clock and the three counters), and
    - the REAL `dec_a` of the C extension, reached through one iteration of `CSimulator.load` (LoadRig of props/c13_corr.py; the
      counters are read back through `list_accelerators`),
  on generated states: every loop shape and near miss, A at the boundaries (0 counts as 256), the loop placed across the 64K wrap,
  IFF 0/1, every option value, clocks up to 2^40.
* `tables_correspondence(chk, loadtracer)`: the translated `DEC`/`DEC0`/`INC0` against the imported tuples, all entries."""
import importlib
import os
import sys

import framework
from framework import VERIF, REPO, LeanLock

sys.path.insert(0, os.path.join(VERIF, 'translate'))

LOAD_DRIVER_MODULES = ['SkoolVerif.Prelude.SimProto', 'SkoolVerif.Gen.PyLoad', 'SkoolVerif.Gen.CLoad.dec_a', 'SkoolVerif.Gen.CLoad.read_port']
GEN_SUBDIRS = ('CLoad',)


def regen_load(chk):
    for name in ('py2lean', 'c2lean', 'pyloop2lean', 'cloop2lean', 'pyload2lean', 'cload2lean'):
        if name in sys.modules:
            importlib.reload(sys.modules[name])
    import pyload2lean
    import cload2lean
    outputs = {}
    ok = True
    try:
        outputs['PyLoad.lean'] = pyload2lean.gen(REPO)
    except Exception as e:
        chk.breaks.append({'kind': 'translator', 'name': 'loadtracer.py (tables, dec_a, tape section, fast-forward) -> Gen/PyLoad.lean',
                           'detail': f'{type(e).__name__}: {e}'})
        ok = False
    try:
        outputs.update(cload2lean.translate(REPO))
    except Exception as e:
        chk.breaks.append({'kind': 'translator', 'name': 'c/csimulator.c (dec_a, read_port fast-forward, advance_tape) -> Gen/CLoad/*.lean',
                           'detail': f'{type(e).__name__}: {e}'})
        ok = False
    changed = []
    with LeanLock():
        for fn, text in outputs.items():
            if chk.write_gen(os.path.join('SkoolVerif', 'Gen', fn), text):
                changed.append(fn)
        if ok:
            gen_dir = os.path.join(VERIF, 'lean', 'SkoolVerif', 'Gen')
            for sub in GEN_SUBDIRS:
                d = os.path.join(gen_dir, sub)
                for f in (os.listdir(d) if os.path.isdir(d) else ()):
                    if f.endswith('.lean') and f'{sub}/{f}' not in outputs:
                        os.remove(os.path.join(d, f))
                        changed.append(f'{sub}/{f} (removed)')
    if changed:
        chk.note('regenerated (load source changed): ' + ', '.join(sorted(changed)))
    chk.extra['load_generated_files'] = sorted(outputs)
    return ok


# ---- tables ---------------------------------------------------------------------------------------------------------

def tables_correspondence(chk, loadtracer):
    ops = ['lttable DEC0', 'lttable DEC1', 'lttable DEC0_', 'lttable INC0']
    impl = [' '.join(f'{a}:{f}' for a, f in t) for t in (loadtracer.DEC[0], loadtracer.DEC[1], loadtracer.DEC0, loadtracer.INC0)]
    for o in ops:
        chk.case('derived:table', ('derived-table', o))
    model = chk.run_driver('Load', ops)
    chk.compare('loadtracer.py DEC/DEC0/INC0 as translated by pyload2lean.py vs the imported tuples (all entries)', ops, impl, model)


# ---- DEC A hook -----------------------------------------------------------------------------------------------------

def deca_states(rng, n):
    """-> [dict(regs, pc, t, iff, im, mem, acc, form)]"""
    out = []
    forms = ('jr', 'jp', 'jr-bad', 'jp-bad', 'other')
    directed = [(form, a, acc, pc, iff) for form in ('jr', 'jp') for a in (0, 1, 2, 0x7F, 0x80, 0xFF) for acc in (1, 2, 3)
                for pc, iff in ((0x8000, 0),)]
    directed += [(form, a, 3, pc, 0) for form in ('jr', 'jp') for pc, a in ((0xFFFB, 3), (0xFFFC, 0), (0xFFFD, 1), (0xFFFE, 0x80), (0xFFFF, 2), (0x00FF, 0), (0x0100, 5))]
    directed += [(form, a, 3, 0x9000, 1) for form in ('jr', 'jp') for a in (0, 1, 7)]
    for i in range(n + len(directed)):
        regs = [rng.randrange(256) for _ in range(24)]
        regs[12] = rng.choice((0xFF00, 0x8000, rng.randrange(0x4002, 0xFFFE)))
        regs[13] = 0
        if i < len(directed):
            form, a, acc, pc, iff = directed[i]
        else:
            form = rng.choice(forms)
            a = rng.choice((0, 1, 2, 3, 0x10, 0x7F, 0x80, 0xFF, rng.randrange(256)))
            acc = rng.randrange(1, 4)
            pc = rng.choice((0x8000, 0xBFFF, 0xC000, 0xFF00, 0xFFFD, 0xFFFE, 0xFFFF, rng.randrange(0x4100, 0x10000)))
            iff = 0 if rng.random() < 0.8 else 1
        regs[0] = a
        regs[1] = rng.choice((regs[1], 0, 1, 0xFF, 0x42))
        regs[15] = rng.choice((regs[15], 0, 0x7F, 0x80, 0xFF, 0x7E))
        mem = {pc: 0x3D}
        p1, p2, p3 = (pc + 1) % 65536, (pc + 2) % 65536, (pc + 3) % 65536
        if form == 'jr':
            mem[p1], mem[p2] = 0x20, 0xFD
        elif form == 'jp':
            mem[p1], mem[p2], mem[p3] = 0xC2, pc % 256, pc // 256
        elif form == 'jr-bad':
            mem[p1], mem[p2] = rng.choice(((0x20, 0xFE), (0x28, 0xFD), (0x20, 0xFC), (0x30, 0xFD)))
        elif form == 'jp-bad':
            mem[p1], mem[p2], mem[p3] = rng.choice(((0xC2, (pc + 1) % 256, pc // 256), (0xCA, pc % 256, pc // 256), (0xC2, pc % 256, (pc // 256) ^ 1)))
        else:
            mem[p1] = rng.randrange(256)
        fd, ia = 69888, 32
        t = rng.choice((0, 1000, rng.randrange(10 ** 7), rng.randrange(2 ** 40)))
        # keep the clock away from the interrupt window of the instruction's end (the C hook is reached through one pass of the
        # load loop, which would accept an interrupt there) and from the frame's end
        t = t - t % fd + rng.randrange(ia + 5000, fd - 5000)
        out.append({'regs': regs, 'pc': pc, 't': t, 'iff': iff, 'im': rng.randrange(3), 'mem': mem, 'acc': acc, 'form': form,
                    'h': [rng.randrange(1000) for _ in range(3)]})
    return out


def deca_op(impl, st, h):
    return (f"deca {impl} ; {st['acc'] & 1} {st['acc'] & 2} {h[0]} {h[1]} {h[2]} ; {' '.join(map(str, st['regs']))} ; "
            f"{st['pc']} {st['t']} {st['iff']} {st['im']} 0 ; " + ' '.join(f'{a}:{v}' for a, v in sorted(st['mem'].items())))


def py_real_deca(sim_cls, loadtracer, st):
    """the real closure, called directly"""
    memory = [0] * 65536
    for a, v in st['mem'].items():
        memory[a] = v
    sim = sim_cls(memory)
    for i, v in enumerate(st['regs']):
        sim.registers[i] = v
    sim.registers[24], sim.registers[25], sim.registers[26], sim.registers[27], sim.registers[28] = st['pc'], st['t'], st['iff'], st['im'], 0
    lt = object.__new__(loadtracer.LoadTracer)
    lt.simulator = sim
    lt.dec_a_jr_hits, lt.dec_a_jp_hits, lt.dec_a_misses = st['h']
    func = lt.dec_a(st['acc'] & 1, st['acc'] & 2)
    before = list(memory)
    func()
    r = list(sim.registers)
    wrote = ' MEMORY-WRITTEN' if memory != before else ''
    return f"{' '.join(map(str, r[:24]))} ; {' '.join(map(str, r[24:29]))} ; {lt.dec_a_jr_hits} {lt.dec_a_jp_hits} {lt.dec_a_misses}{wrote}"


def deca_correspondence(chk, loadtracer, loadsample, tape, classes):
    from props import c13_corr
    cls = dict(classes)
    rng = chk.rng
    states = deca_states(rng, chk.scale(400, 4000))
    # ---- Python: the closure itself
    if 'py-plain' in cls:
        ops = [deca_op('py', st, st['h']) for st in states]
        impl = []
        for st in states:
            try:
                impl.append(py_real_deca(cls['py-plain'], loadtracer, st))
            except Exception as e:
                impl.append(f'exception {type(e).__name__}: {e}')
            chk.case(f"derived:deca:py:{st['form']}", ('derived-deca', 'py', st['form'], st['regs'][0], st['acc'], st['iff'], st['pc']),
                     {'kind': 'LoadTracer.dec_a closure vs its translation', 'form': st['form'], 'A': st['regs'][0], 'accelerate_dec_a': st['acc'],
                      'pc': st['pc']} if st is states[0] else None)
        model = chk.run_driver('Load', ops)
        if model is not None:
            model = [' '.join(m.split()) for m in model]
        chk.compare('LoadTracer.dec_a(jr, jp)() (real closure, called directly) vs PyLoad.dec_a_func (translated from loadtracer.py)', ops,
                    [' '.join(i.split()) for i in impl], model)
    # ---- C: `dec_a` through one pass of CSimulator.load
    if 'c-plain' in cls:
        accs = {n: loadsample.Accelerator(*a) for n, a in loadsample.ACCELERATORS.items()}
        one = sorted(accs)[0]
        rig = c13_corr.LoadRig('c-plain', cls['c-plain'], loadtracer, tape, True)
        cases = []
        for st in states:
            case = c13_corr.neutral_case(st['pc'], st['t'], st['mem'], st['regs'])
            case['fields'] = [st['pc'], st['t'], st['iff'], st['im'], 0, 0]
            case['accel_dec_a'] = st['acc']
            case['acc_names'] = [one]           # the C module reports its counters only for runs that had accelerators
            case['stop'] = 0x7001
            cases.append(case)
        results = c13_corr.run_cases_isolated(rig, cases, accs)
        ops, impl = [], []
        kinds = {'deca-jr': (1, 0, 0), 'deca-jp': (0, 1, 0), 'deca-miss': (0, 0, 1), 'deca-plain': (0, 0, 0)}
        for st, (out, tg) in zip(states, results):
            chk.case(f"derived:deca:c:{st['form']}", ('derived-deca', 'c', st['form'], st['regs'][0], st['acc'], st['iff'], st['pc']))
            ops.append(deca_op('c', st, [0, 0, 0]))
            parts = [p.strip() for p in out.split(';')]
            if len(parts) < 2 or tg is None or tg[0] not in kinds:
                impl.append(' '.join(out.split())[:300] + f' ; tag={tg[0] if tg else None}')
                continue
            impl.append(f"{parts[0]} ; {parts[1]} ; {' '.join(map(str, kinds[tg[0]]))}")
        model = chk.run_driver('Load', ops)
        if model is not None:
            model = [' '.join(m.split()) for m in model]
        chk.compare('dec_a of c/csimulator.c (real, one pass of CSimulator.load) vs CSimH.Load.dec_a (translated from c/csimulator.c)', ops,
                    [' '.join(i.split()) for i in impl], model)


# ---- the timeout test of the two load loops -------------------------------------------------------------------------

def timeout_boundary(chk, loadtracer, tape, classes):
    """Directed, every run: `LoadTracer.run` / `CSimulator.load` stop with 'timed out' on the first instruction boundary whose
    clock is GREATER than `timeout` (not equal).  NOPs from 0x8000, tape not running, `timeout` exactly k instructions ahead: both real
    loops must execute k + 1 instructions.  (The one-iteration correspondence runs with timeout = 0 and cannot see `>` vs `>=`.)"""
    from props import c13_corr
    cls = dict(classes)
    cases = []
    for k in (1, 2, 5):
        for t0 in (50000, 69888 * 3 + 1000):
            case = c13_corr.neutral_case(0x8000, t0, {})
            case['timeout'] = t0 + 4 * k
            cases.append((k, t0, case))
    for n in ('py-plain', 'c-plain'):
        if n not in cls:
            continue
        rig = c13_corr.LoadRig(n, cls[n], loadtracer, tape, n.startswith('c'))
        cs = [dict(c) for _, _, c in cases]
        res = c13_corr.run_cases_isolated(rig, cs, {}) if rig.is_c else c13_corr.run_cases(rig, cs, {})
        for (k, t0, case), (out, _) in zip(cases, res):
            chk.case('lstep-timeout', ('lstep-timeout', n, k, t0),
                     {'kind': 'timeout boundary of the load loop', 'impl': n, 'timeout': case['timeout'], 'T0': t0} if k == 1 and t0 == 50000 else None)
            parts = out.split(';')
            f = parts[1].split() if len(parts) > 1 else []
            sc = parts[4].strip() if len(parts) > 4 else '?'
            want = (0x8000 + k + 1, t0 + 4 * (k + 1), '4')
            got = (int(f[0]), int(f[1]), sc) if len(f) >= 2 and f[0].isdigit() and f[1].isdigit() else (None, None, out[:80])
            if got != want:
                chk.violation(f'load-loop-timeout:{n}',
                              f'{n}: load loop started at T={t0} with timeout={case["timeout"]} (= the clock after {k} NOPs) stopped at '
                              f'PC={got[0]} T={got[1]} stop_cond={got[2]}; the simulation times out on the first instruction boundary with '
                              f'T > timeout: PC={want[0]} T={want[1]} (stop_cond 4)',
                              {'kind': 'lstep-int', 'case': {kk: v for kk, v in case.items() if kk != 'acc_objs'}})
