#!/bin/bash
# tools_seed.sh <PID> <seed-dir-name>: confirm a seeded change made in /tmp/seed_<PID> and run ./check <PID> against it.
# Usage: tools_seed.sh C02 C02-char-escape-high-bit [check-id ...]
P=$1; NAME=$2; shift 2; CHECKS=${@:-$P}
W=${SEED_DIR:-/tmp/seed_$P}
set -u
cd $W || exit 2
REB=:; grep -q '^diff --git a/c/' patch.diff && REB='/venv/bin/python setup.py build_ext --inplace -q'   # C change: rebuild the extensions around each demo run
$REB >/dev/null 2>&1
echo "== demo with change"; timeout 300 /venv/bin/python demo_$P.py > /tmp/seed_demo_with.txt 2>&1; echo "exit=$?"; head -3 /tmp/seed_demo_with.txt
git apply -R patch.diff || { echo 'cannot reverse patch'; exit 2; }
$REB >/dev/null 2>&1
echo "== demo without change"; timeout 300 /venv/bin/python demo_$P.py > /tmp/seed_demo_without.txt 2>&1; echo "exit=$?"; head -2 /tmp/seed_demo_without.txt
git apply patch.diff
$REB >/dev/null 2>&1
echo "== suite with change"; /venv/bin/python -m pytest -q -p no:cacheprovider -n 6 tests 2>&1 | grep -v csimulator_api_test | grep "FAILED\|passed" | tail -4
mkdir -p /verif/seeded/$NAME && cp patch.diff demo_$P.py /verif/seeded/$NAME/
# Builders read /repo live, so while they run the seeded tree is a scratch copy selected with SKOOLKIT_REPO
# (the checks take their import root and the C source from it). `tools_seed.sh --repo` applies to /repo itself.
M=/tmp/seedrun_$P; rm -rf $M; mkdir -p $M; cp -a /repo/skoolkit /repo/c $M/; rm -f $M/skoolkit/*.so
(cd $M && patch -p1 -s < $W/patch.diff) || { echo "patch does not apply"; exit 2; }
cd /verif
for C in $CHECKS; do echo "== SKOOLKIT_REPO=$M ./check $C"; VERIF_EVIDENCE_DIR=/tmp/seed_evidence SKOOLKIT_REPO=$M ./check $C 2>&1 | grep -v "^KNOWN-FINDING" | tail -5 | cut -c1-260; done
rm -rf $M
