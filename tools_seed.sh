#!/bin/bash
# tools_seed.sh <PID> <seed-dir-name>: confirm a seeded change made in /tmp/seed_<PID> and run ./check <PID> against it.
# Usage: tools_seed.sh C02 C02-char-escape-high-bit [check-id ...]
P=$1; NAME=$2; shift 2; CHECKS=${@:-$P}
W=/tmp/seed_$P
set -u
cd $W || exit 2
echo "== demo with change"; timeout 300 /venv/bin/python demo_$P.py > /tmp/seed_demo_with.txt 2>&1; echo "exit=$?"; head -3 /tmp/seed_demo_with.txt
git apply -R patch.diff || { echo 'cannot reverse patch'; exit 2; }
echo "== demo without change"; timeout 300 /venv/bin/python demo_$P.py > /tmp/seed_demo_without.txt 2>&1; echo "exit=$?"; head -2 /tmp/seed_demo_without.txt
git apply patch.diff
echo "== suite with change"; /venv/bin/python -m pytest -q -p no:cacheprovider -n 6 tests 2>&1 | grep -v csimulator_api_test | grep "FAILED\|passed" | tail -4
mkdir -p /verif/seeded/$NAME && cp patch.diff demo_$P.py /verif/seeded/$NAME/
cd /repo && git apply $W/patch.diff || { echo "patch does not apply to /repo"; exit 2; }
if git diff --name-only | grep -q '^c/'; then echo "(C source changed: checks compile it themselves)"; fi
cd /verif
for C in $CHECKS; do echo "== ./check $C on seeded tree"; ./check $C 2>&1 | grep -v "^KNOWN-FINDING" | tail -4 | cut -c1-260; done
git -C /repo checkout -- . && git -C /repo status --short | head -3
