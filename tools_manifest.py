#!/usr/bin/env python3
"""Regenerates MANIFEST.json from the table below (keeps it valid at all times)."""
import json, os
HERE = os.path.dirname(os.path.abspath(__file__))
TB = ("Lean 4.33.0 kernel; axioms propext/Quot.sound/Classical.choice only (audited by #print axioms each run); "
      "no sorry/native_decide/bv_decide; ")
CHECKS = {
 'C09': dict(cat='proof', technique='Lean 4 theorems (induction over the encoder loop, page lists, poke progressions; kernel enumeration for packed header bytes) + model/implementation correspondence + e2e with independent decoders and an independent edit oracle',
   text='40 theorems: Z80 RLE decode(encode d) = d, length bound and block framing for all byte strings; version 2/3 page-block stream round trip; T-state encodings of both formats and their agreement, 16-bit words, R bit 7/border/IM/issue-2 packed bytes; '
        'poke/move/patch frame theorems on flat lists (real Python slice-assignment semantics) and on banked Memory objects with bank prefixes (exactly the named cells of the named bank change; default/explicit destination bank incl. bank 0). '
        'Register/state header layouts, option order and file I/O of bin2sna/snapmod are e2e (every --reg/--state name, all 81 --move prefix combinations, pokes, patches) against an oracle written from the manual pages.',
   note=TB + 'hand models Model/Z80Rle, SnapHeader, SnapEdit tied by correspondence (7.8k cases/run, stateful op streams); zlib trusted', ref='§8 C09'),
 'C18': dict(cat='proof', technique='Lean 4 theorems (induction over chunk lists / row-loop state machine) + model/implementation correspondence + e2e word-sequence extraction',
   text='32 theorems: faithful model of skoolkit.wrap (textwrap) — words preserved in order exactly once, width bound, greediness, no empty line, for all texts and widths; '
        'AsmWriter.print_instructions row loop equals a declarative layout (every instruction/comment line once, in order, in its group; warning exactly for over-wide rows); '
        'brace span rules. Two genuine defects are proved as negations (C18_full_false, C18_ctl_full_false) and listed as known findings. '
        'skool2html/sna2skool/#TABLE/#LIST paths are e2e exploration.',
   note=TB + 'hand models Model/Wrap, AsmRows, Braces tied by correspondence (18k ops/run); CPython textwrap/str.format modelled, not verified', ref='§8 C18'),
 'C16': dict(cat='proof', technique='Lean 4 theorems (induction on common prefix for relpath; link-closure of an abstract site) + model/implementation correspondence + e2e crawl',
   text='15 theorems: posixpath normpath/join/relpath model with relpath_resolves for all relative paths and cwds; abstract site (entries, anchors, #R, operand links, single/multi page, remote code) '
        'with anchor uniqueness, path injectivity and all_links_resolve under an executable well-formedness check that is evaluated on every site extracted from a real skool2html run. '
        'Templates, assets, index/box pages and #LINK are covered by the e2e crawl (every href/src of every written file) only.',
   note=TB + 'hand models Model/PathAlg, HtmlSite tied by correspondence (53k cases/run); skool parsing taken from the real SkoolParser; posixpath modelled, not verified', ref='§8 C16'),
 'C14': dict(cat='proof', technique='Lean 4 theorems (invariants over the ctl dictionary, termination measures) + model/implementation correspondence + e2e sna2ctl->sna2skool->skool2bin',
   text='24 theorems on a hand model of snactl.py (both generators, _find_terminal_instruction, text pass, steps 1-7) abstract in the decoder: output strictly increasing, starts at START, '
        'terminator at END, tiles the range, no U left, for all decode streams/images; every while-loop terminates (explicit measures). Alignment after the text pass is refuted '
        '(known finding F, negation proved). "Every executed address in a c block" and the sna2skool leg are correspondence + e2e only.',
   note=TB + 'hand model Model/SnaCtl tied by correspondence (5.5k ops/run) with decode tables taken from the real opcodes.decode/Disassembler; three heuristic-limit known findings', ref='§8 C14'),
 'C11': dict(cat='proof', technique='Lean 4 theorems (induction over block lists / pulse lists) + model/implementation correspondence + e2e with independent tape writers/decoders',
   text='30 theorems on hand models of tape.get_edges (both data paths), TAP/PZX/TZX parsers and writers: edges sorted, exact pulse sequences, decode-back to the block bits, '
        'data-block index ranges, polarity/first-edge laws, TAP/PZX/TZX forms give identical edges, TAP and PZX round trips, PULS/DATA codecs — for all block lists and timings. '
        'One genuine defect found here (truncation mid-bit for PZX DATA with p0!=p1 and used bits<8) was repaired by a fix: commit; the exact-pulse/decode theorems are now full strength.',
   note=TB + 'hand models Model/Edges, TapeFiles, TzxFile tied by correspondence (13k cases/run); tapinfo text and TZX loop expansion e2e only', ref='§8 C11'),
 'C04': dict(cat='proof', technique='Lean 4 theorems (decide over mode/directive tables; induction over line lists) + model/implementation correspondence + e2e with an independent two-pass assembler',
   text='28 theorems: the substitution/fix-mode weight tables of skoolparser and skool2bin select the same directives in all 7 modes (tables dumped from the real modules each run); '
        'BinWriter layout (prepend/replace/overwrite/append/remove) agrees with sequential assembly of the parser\'s ASM-mode instruction list for all line lists; numeral base conversion preserves value. '
        'The property itself (skool2asm output assembled by an independent mini assembler == skool2bin bytes; #PEEK) is e2e exploration; documented design limits are excluded and two are listed as known findings.',
   note=TB + 'hand models Model/AsmModes, AsmLayout, ReplaceNums tied by correspondence (6k cases/run); label substitution and template text e2e only', ref='§8 C04'),
 'C03': dict(cat='proof', technique='Lean 4 theorems (induction over sublength/comment lists) + model/implementation correspondence + e2e skool->ctl->skool round trips',
   text='21 theorems on hand models of skoolctl/ctlparser layers: `*` multiplier abbreviation/expansion, trailing-sublength trimming and refill, DEFB/DEFM operand composition '
        '(render.parse.compose.render = render for all data and base letters), second-trip fixed point, dots-escaping of blank comments, paragraph join/split, and the -k '
        "'.'/':' line writer vs sna2skool's distribution (mutual inverses for all comment groups). Whole-file composition (headers, @ directives, M spans, DEFW/DEFS, braces) "
        'is correspondence + e2e (3000 random round trips per quick run) only. Five genuine defects found here were repaired by fix: commits.',
   note=TB + 'hand models Model/CtlLengths, CtlCompose, CtlComments tied by correspondence (14.6k cases/run); text layer CtlText has no theorems', ref='§8 C03'),
 'C08': dict(cat='proof', technique='Lean 4 theorems over models regenerated from simulator.py/cmiosimulator.py by an AST translator (generic tactic per closure; induction over runs; kernel enumeration for masks) + per-slot differential validation of the translation against 4 real simulators',
   text='ROM preservation and T-monotonicity are proved for every closure with any arguments, any state, any lawful memory, and lifted to runs of any length for both Python simulators '
        '(48K list memory and the 128K Memory+PagingTracer model). The range invariant (all registers/cells/state fields) is proved for every closure (generic tactics, no closure-specific proof text), lifted to steps and runs of any length. 128K paging: refinement to "mapping = f(last accepted write)", lock absorbing, one-bank writes, visible slots, decode mask = A15/A1 over all 65536 ports. '
        'C simulators: Props/C08C.lean (5 theorems) lifts ROM preservation, the range invariant and clock monotonicity to runs of any length of the C handler bodies translated from c/csimulator.c on every run (corollaries of C06\'s c_run_eq_python; hypotheses: the 64-bit clock does not wrap and, on 128K, a tracer is attached); the C paging latch is covered by Z80 programs writing port histories on all four simulators (e2e) and by C06\'s per-slot correspondence, the C run loops differentially.',
   note=TB + 'translator py2lean.py/cdispatch.py trusted but validated each run (all slots x random boundary states, 4 implementations); Mem128 hand model tied by correspondence', ref='§8 C08'),
 'C15': dict(cat='proof', technique='Lean 4 theorems (induction over byte strings / tile rows; decide over 256-entry tables) + model/implementation correspondence on pre-zlib scanlines + e2e with an independent PNG/APNG decoder and renderer',
   text='32 theorems: table-driven CRC = bit-serial CRC-32 for all byte strings; chunk framing and whole-file structure (IHDR/PLTE/tRNS/acTL/fcTL/IDAT/fdAT/IEND order, sequence numbers); '
        'mask truth tables; flip/rotate laws and pixel maps; attribute rules; generic scanline builder pixel theorem for all arrays, scales, crops, masks and depths; the six specialised encoders equal the generic one; '
        'flash rectangle inside the frame and second frame = ink/paper exchanged. zlib trusted; palette construction and tindex/alpha are e2e only.',
   note=TB + 'hand models Model/PngCrc, ZxTile, PngScan tied by correspondence (10k ops/run); zlib trusted', ref='§8 C15'),
 'C01': dict(cat='proof', technique='Lean 4 theorems (induction over directive lists, statement lists, chains) + model/implementation correspondence + e2e sna2skool->skool2bin byte compare',
   text='21 theorems on hand models of CtlParser bookkeeping (blocks/sub-blocks tile the range for every directive list incl. multipliers, M/L directives; from control-file text), '
        'DEFB/DEFM/DEFW/DEFS range functions and the code walk (statements are consecutive, cover exactly, hold the snapshot bytes; 64K wrap, RST arguments), skool2bin sequential placement, and the composition image_restored '
        '(partial under NoGap; the full statement is refuted by the known i-block-gap finding). Instruction text<->bytes enters as a hypothesis discharged by C02; comments/ASM directives e2e only.',
   note=TB + 'hand models Model/CtlTiling, CtlLex, Statements, BinWriter tied by correspondence (5.6k cases/run); two known findings', ref='§8 C01'),
 'C02': dict(cat='proof', technique='Lean 4 theorems: operand-level round trips by induction/arithmetic for all values, bases and cases; INSTRUCTION level: the disassembler tables are dumped from the real Disassembler objects each run (translate/gen_c02.py), a function-by-function model of Assembler._assemble and every encoder, a slot-level checker kernel-decided over all slots x option sets x cases and lifted to every operand value by rule lemmas + model/implementation correspondence + complete e2e enumeration',
   text='31 theorems. Operand level (24): number rendering <-> parsing round trips (binary, char, decimal, hex, negative), operand splitting on unquoted commas, DEFB/DEFM/DEFW/DEFS statement round trips, relative-jump encoding for all addresses incl. 64K wrap, index offsets, converse direction for operands. '
        'Instruction level (7): disassembler_total; instruction_roundtrip — for every configuration (all 256 additional-opcode subsets, case, wrap, hex/decimal), base letters, memory and address, if the disassembler model emits a non-variant instruction then the assembler model gives back exactly its bytes (all seven tables, every operand value, 64K cuts); '
        'variant_roundtrip (@bytes list parses back and its DEFB assembles to it); instruction_bytes / instruction_converse (re-decoding under any configuration and re-assembling gives the same bytes); rule_converse_partial (any spelling of the numeric operands that keeps shape and value). '
        'Kernel coverage: 1786 slots x 2256 option-set candidates x {upper, lower} = 4512 slot checks. The converse over ALL accepted spellings of whole instructions (leading +, LD B,(5), ignored third operands) stays e2e; base m on RST/IN A,(n)/OUT (n),A is excluded by hypothesis (known C01 finding). One genuine defect found here was repaired (e3630db: JR PO/PE/P/M accepted).',
   note=TB + 'tables regenerated from the real Disassembler each run (Gen/C02Tables.lean); hand models Model/OpText, AsmEval, Statements, InstrDecode, AsmInstr, DisText tied by correspondence (226k ops/run incl. a malformed stream compared by bytes or kind of exception); e2e 1.5M cases/run', ref='§8 C02'),
 'C06': dict(cat='proof', technique='Lean 4: BOTH sides are translated from source on every run — simulator.py/cmiosimulator.py by py2lean and the C handler bodies of c/csimulator.c (both builds) by a C-subset translator (translate/c2lean.py, explicit C integer semantics) — and proved equal per handler by one generic tactic, lifted to fetch, step and runs; dispatch tables equal by kernel enumeration; Python pair related per closure + per-slot execution of the real C extension against the C-translated model + lock-step programs',
   text='25 theorems. The seven C dispatch tables equal the Python ones slot by slot (1792 rows, decide +kernel). NEW: c_handlers_eq_python / c_cmio_handlers_eq_python — for all 72 C opcode handlers, every well-formed argument tuple and every state satisfying the range invariant (RInv) and the C representation bounds CRep (T < 2^63, frame constants < 2^31: where C wraps and Python does not), the translated C handler equals the translated Python closure on the WHOLE state; c_fetch_eq_python (GET_OPCODE_FUNC selects the row Python selects); '
        'c_step_eq_python and c_run_eq_python for any number of steps (plain and contended); c_accept_interrupt_eq_model; c_dispatch_rows_args_ok. OUT (n),A / OUT (C),r / OUTI.. carry the hypothesis OutOk (tracer attached or 48K): the full statement is refuted (c_out_full_false: on 128K memory without a tracer the C simulator pages by itself — known finding c-pages-128k-without-tracer). '
        'Python pair: CMIOSimulator dispatches to the same closure; one step agrees on registers, flags, memory, PC, IFF, IM, HALT and port sequences (BIT n,(HL) F bits 5/3 aside; HALT and LD A,I/R under CfgOk); runs stay related while no clock-reading closure executes. '
        'Still differential only: the C run/trace/exec_frame/load loops (modelled by hand in C10/C13/C20), dec_a, the C init_* table code (4.2M table entries read back through the real handlers and compared with simtables.py each run).',
   note=TB + 'translators py2lean.py and c2lean.py (C-to-Int mapping trusted: u8/u32/i32/u64 wraps after every arithmetic operation, gcc -fwrapv; every macro text, out7ffd(), typedefs and struct fields are checked verbatim, anything outside the subset is a translator break); PEEK/POKE = MemLike, OUT = portOut, self->contend = Model/Contend, tracer C-API blocks = input stream/output log: modelled, validated per slot against the real C extension (36k cases/run, both builds, 48K and 128K)', ref='§8 C06'),
 'C19': dict(cat='proof', technique='Lean 4 theorems over the model regenerated from cmiosimulator.py (generic tactic per closure), a hand model of the delay tables (tied exhaustively), and an INDEPENDENT bus-cycle specification (Spec/Z80Bus.lean: ordered memory/I-O cycles of every instruction form, written from the documented contention tables) against which the delay of every closure is proved exactly + exact-T oracle on the real contended simulators',
   text='41 theorems. Per closure, no exclusions: contended = plain on registers/flags/memory/PC/interrupt state/port sequence (F bits 5/3 of BIT n,(HL) aside) and never fewer T-states; outside the display window every closure takes exactly the plain T-states; window constants tied, sound and tight; delay tables follow the 6,5,4,3,2,1,0,0 pattern on both frame layouts (all 69888+70908 entries). '
        'New: delay_equals_documented_pattern — for the instruction decoded at PC (through C05\'s independent decoder), from any RInv state inside the window, T_contended = T_plain + fold of the documented wait pattern over the specification\'s cycles in order (busDelay), for every instruction; the spec\'s cycle lengths add up to the manual\'s T-states for all 7x256 opcodes and both branch outcomes (kernel-decided); '
        'corollaries same_tstates_if_no_contended_address, delay_is_sum_in_order, io_cases, delay_equals_pattern_everywhere (all frame positions). One instruction differs from the documented pattern: the five repeat cycles of OTIR/OTDR use the pre-decrement BC (known finding bus-delay-otir-repeat-bc, pinned by a test of the suite): the documented-variant theorem carries exactly that side condition, the as-implemented variant is proved unconditionally, and otir_repeat_cycles_differ exhibits the 0-vs-18 T-state witness. '
        'The C CPATTERN blocks: Props/C19C.lean (c_delay_equals_pattern, c_delay_equals_documented_pattern) — contended C step = plain C step + the specification\'s delay, over the C handler bodies translated on every run (C06); interrupt acceptance is excluded; single step.',
   note=TB + 'generated Z80 models (translator validated per slot) + hand models Model/Contend, Spec/Z80Bus (written from recollection of the documented tables: its totals are checked against the ISA T-states, and it agrees with both real contended simulators on 150k cases per quick run / 1.4M thorough); independent Python oracle harness/indep/z80bus.py compared with the Lean spec each run', ref='§8 C19'),
 'C17': dict(cat='proof', technique='Lean 4 theorems (induction over digit lists, progressions, balanced push/pop sequences, syntax trees) on a text-level model of expand_macros + model/implementation correspondence + e2e oracles (ASM vs HTML vs position)',
   text='32 theorems: Python integer semantics of the operators evaluate() lets through (floor division, modulo sign, two\'s-complement bit ops), precedence parser round trip for every syntax tree, '
        '#EVAL/#N digit round trips at any base/width/sign, #FOR progression and sep/fsep join spec, #FOR = #FOREACH, #MAP lookup, snapshot stack laws (#POPS undoes #PUSHS; any balanced sequence restores memory), '
        '#POKES frame, #LET visibility, leftmost-first expansion and position independence. Termination is not claimed (fuel-monotone _partial). '
        'Argument tokenisers and the ASM/HTML relation are correspondence/e2e only; the strip asymmetry between the two writers is a known finding.',
   note=TB + 'hand models Model/Macro{Text,Expr,Args,Ops,Expand} tied by correspondence (17k cases/run) on fresh AsmWriter/HtmlWriter instances; MacroBitLemmas imports Mathlib.Data.Int.Bitwise', ref='§8 C17'),
 'C12': dict(cat='proof', technique='Lean 4 theorems: symbolic execution of the bin2tap loader bytes in the Z80 model regenerated from simulator.py, induction for parity/pre-fill/fast-load + model/implementation correspondence; end-to-end load is exploration',
   text='18 theorems: block parity and header layouts; stack pre-fill puts the return frame exactly where loading would destroy it (full strength after the fix: d0144d2); the data loader (8 steps in the generated Z80 model, for all ORG/LENGTH/STACK/START in range) reaches LD-BYTES with IX/DE/A/carry/SP/stack as required; '
        'LoadTracer.fast_load copies exactly the block; the ROM epilogue returns to START; their composition (no-CLEAR tape loads and starts); one pass of the 128K bank loader pages and calls LD-BYTES; written tapes read back (cites C11). '
        'The 16K ROM between the proved pieces (BASIC LOAD "", edge sampling, 128K menu) is executed, not reasoned about: the bin2tap->tap2sna claim itself is e2e exploration over an option grid.',
   note=TB + 'generated Z80 model (translator validated per slot) + hand models Model/Bin2Tap, FastLoad, RomEpilogue tied by correspondence (2.5k cases/run) incl. the ROM bytes the theorems assume', ref='§8 C12'),
 'C07': dict(cat='proof', technique='Lean 4: kernel-decided equalities over all opcode slots between data tables dumped from the five modules each run, decoder wrappers proved for all memories/addresses/options, simulator size/timing facts derived from the closure ASTs and PROVED of the generated model per closure + exhaustive correspondence',
   text='21 theorems over all 1786 opcode slots, every additional-opcode set, case, wrap setting, memory and address: no table lookup of Disassembler / traceutils.disassemble / opcodes.decode / z80.get_timing can fail; the three static decoders agree on length (incl. the 64K cut); the two disassemblers print identical text; '
        'the length equals the simulator\'s fall-through PC advance and get_timing\'s value(s) are exactly the T-states the simulator closure can take (which member goes with which branch), for the plain simulator, and via C06/C19 for the contended and C ones. '
        'Operand formatting variants and rst_handler are outside the theorems (correspondence/e2e).',
   note=TB + 'data tables dumped by calling the real functions (translate/gen_c07.py), decode wrappers are hand models tied by exhaustive correspondence (122k cases/run)', ref='§8 C07'),
 'C05': dict(cat='proof', technique='Lean 4 refinement: the simulator model regenerated from simulator.py each run is proved equal, step for step and for every in-range state, to an independent ISA-level Z80 specification (algorithmic decoder + executable semantics); flag tables proved equal to a bit-level spec by kernel enumeration of all 1.05M entries; translator tie per slot + e2e spec-vs-four-simulators',
   text='57 theorems: alu_<T>_correct for all 34 flag/result tables (every entry); dispatch_*_ok for all 1792 slots of the seven tables against the independent x/y/z/p/q decoder incl. IXh/IXl, SLL, DDCB register copies, ED duplicates (length, both T-state counts, M1 count); '
        'closure_refines_spec for all 76 closures (16-bit ADD/ADC/SBC flags, block instructions, RLD/RRD, DAA by general bit lemmas); sim_refines_spec: RInv s -> Sim.step cfg s = Spec.step cfg s (full strength, 48K and 128K instances); run_refines_spec for any number of steps; '
        'cmio_refines_spec (contended simulator equals the spec step except T, MEMPTR, F bits 5/3) and c_dispatch_ok (C tables, through C06). The C simulators: Props/C05C.lean (3 theorems: c_refines_spec, c_run_refines_spec, c_cmio_refines_spec) — the C handler bodies translated from c/csimulator.c on every run (C06) execute every instruction exactly as the specification does, under the C representation bounds and, for port writes on 128K, an attached tracer; block instructions are specified per iteration; BIT n,(HL) bits 5/3 follow the plain simulators.',
   note=TB + 'generated Z80 model (py2lean translator validated per slot against all four real simulators each run) + independent spec Spec/Z80Isa, Z80Decode, Z80Sem, Z80Alu16 written from the Z80 manual; 1.19M real simtables entries compared with an independent Python oracle each run', ref='§8 C05'),
 'C10': dict(cat='proof', technique='Lean 4 theorems: per-closure frame-shift commutation and duration bounds generated from simulator.py/cmiosimulator.py each run, induction over the trace loops (Python next_int loop = stateless C loop), save/restore composition on hand models of the SZX/Z80 state path + model/implementation correspondence + e2e every split point on trace.py',
   text='23 theorems: step and the whole trace loop (incl. accept_interrupt) commute with shifting T by whole frames, for every closure of both simulators; 0 <= dT <= 23 (plain) / 143 (contended); python_loop_eq_c_loop; the probed port is the port read; '
        'restore_save_szx / restore_save_z80 (exact except the fields the Z80 format cannot carry); resume_transparent_szx (+python, +final_snapshot_equal) for plain and contended; resume_transparent_z80 for the plain simulator; '
        'the full Z80 + contention statement is REFUTED (z80_cmio_full_false, z80_cmio_full_false_bit_hl: two known findings, the format has no field for HALT/MEMPTR) and resume_transparent_z80_cmio_partial holds outside exactly those situations. '
        'Saveable at the split point = C08 range invariant + tracer ranges + intact ROM; RAM passes through the codecs as identity in the model (C09 proves the RLE lossless; zlib trusted); only the -m stop condition is modelled.',
   note=TB + 'generated Z80 models + hand models Model/TraceLoop, SnapResume tied by correspondence (2.2k cases/run on all four simulators); two genuine defects found here were repaired (79dd3f6, ed16bf4)', ref='§8 C10'),
 'C13': dict(cat='proof', technique='Lean 4 theorems: DEC A hooks proved equal to 2*A steps of the generated Z80 model; closed-form tape-sampling fast-forward proved equal to iteration of the loop body; the ACCELERATORS table (dumped each run) kernel-checked against a static walk of the generated model + model/implementation correspondence on single load-loop iterations + e2e bit-identical snapshots over option grids',
   text='23 theorems: dec_a_jr/jp_equiv and exit_is_first (the written state is runN (2A), PC never leaves the loop earlier); tsl_ffwd_equiv_inc/dec, tsl_loops_spec (maximal, no sample past the next edge, DEC counter 0 -> 0 loops), tsl_no_edge_skipped, tape_advance_composes; '
        'accelerator_table_consistent (53 entries: loop_time, loop_r_inc, one IN, one INC/DEC of the counter), walk soundness, accelerator_loop_trip, tsl_real_loop_equals_iteration (closes accelerated -> real), accelerators_unambiguous, matchers_agree (Python slice vs C wrap-around). '
        'Bit-identical snapshots across accelerator/dec-a/pause/python settings and the weak claim for fast-load/cmio are e2e on tap2sna with generated loaders for every recognised loop shape. One genuine defect was repaired (e618672, counter 0) and one is a known finding (negative first-edge, C raises).',
   note=TB + 'generated Z80 model + hand models Model/LoadAccel, LoadTape, AccelWalk tied by correspondence (3k load-loop iterations/run on Python and C); the C load loop is tied differentially only', ref='§8 C13'),
 'C20': dict(cat='proof', technique='Lean 4 theorems: RZX input-block codec round trip by induction over frames; per-closure R/M1 facts generated from the simulator sources each run and kernel-decided over all 1792 slots; playback as a fold over frames (append/stop/resume by induction), record-then-play by induction over the recorded plan + model/implementation correspondence on process_block and whole files + e2e with an independent recorder',
   text='25 theorems: input_roundtrip (+repeat marker; the 65535-readings corner made explicit), rzxinfo_agrees_with_rzxplay and rzxinfo_reports_recorded; closure_r_update (all closures, both simulators), dispatch_r_increments, fetch_dec_eq_m1 (+cmio), c_fetch_dec_eq_py, c_frame_eq_py_frame; '
        'play_append, stop_then_continue (every k, flags, zero-fetch frames), playback_ignores_unsaved_state, resume_rzx (+cmio up to the clock), flag4_irrelevant_for_faithful_snapshots, end_of_frame_implements_convention (byte at 0 not EI/DD/FD); '
        'port_input_is_local, record_then_play (+in_range: from any RInv state, a recording of the simulator\'s own run plays back through exactly the recorded instructions to the recorder\'s final state), end_of_frame_keeps_ranges. '
        'The snapshot round trip enters the resume theorems as the hypothesis SnapEq/ClockEq (C09/C10 cover it; composed behaviour on the real tools is e2e); Faithful/PlanOkR are hypotheses on the recording. One defect repaired (a0f7060), one known finding (last instruction of a frame rewrites its own opcode).',
   note=TB + 'generated Z80 models + hand models Model/RzxInput, RzxPlay and Spec/RzxM1, RzxConvention tied by correspondence (10.9k comparisons/run, Python and C, plain and cmio); C exec_frame tied differentially only; screen drawing/--map/--trace not modelled', ref='§8 C20'),
}
NA = {}
def main():
    props = [json.loads(l) for l in open(os.path.join(HERE, 'properties.jsonl'))]
    checks = []
    for p in props:
        c = CHECKS.get(p['id'])
        if not c:
            continue
        checks.append({
            'property_id': p['id'],
            'quick_cmd': f"./check {p['id']} --tier quick",
            'thorough_cmd': f"./check {p['id']} --tier thorough",
            'evidence_file': f"evidence/{p['id']}.json",
            'replay_cmd_template': f"./check {p['id']} --replay {{path}}",
            'engine': 'lean4-skoolverif',
            'level_claimed': {'category': c['cat'], 'text': c['text'], 'design_ref': c['ref']},
            'level_note': c['note'],
            'technique': c['technique'],
        })
    na = [{'property_id': p['id'], 'reason': NA.get(p['id'], 'not yet built in this round (framework under construction); see DESIGN.md §8')}
          for p in props if p['id'] not in CHECKS]
    man = {
        'version': 1,
        'setup_cmd': 'cd lean && lake build',
        'hooks': {'guard': 'SKOOLKIT_VERIF', 'enable': 'no source hooks are needed: the checks import /repo in-process and compile c/csimulator.c themselves',
                  'baseline_off_cmd': 'cd /repo && env -u SKOOLKIT_VERIF /venv/bin/python -m pytest -ra -q -p no:cacheprovider --timeout=900 --continue-on-collection-errors',
                  'source_commits': [], 'add_only': True},
        'engines': [{'name': 'lean4-skoolverif', 'path': 'lean', 'serves_properties': [c['property_id'] for c in checks],
                     'kind_free_text': 'Lean 4 library (generated + hand models, specs, theorems) with a Python harness: translator, correspondence, e2e search'}],
        'checks': checks,
        'not_applicable': na,
        'notes': 'One entry point: ./check <ID> [--tier quick|thorough] [--replay FILE]. Known findings: KNOWN_FINDINGS.txt.',
    }
    with open(os.path.join(HERE, 'MANIFEST.json'), 'w') as f:
        json.dump(man, f, indent=1)
        f.write('\n')
if __name__ == '__main__':
    main()
