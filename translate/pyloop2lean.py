#!/usr/bin/env python3
"""The Python LOOPS around the simulator closures -> Lean 4 (`Gen/PyLoops.lean`, `Gen/PyLoopCores.lean`).

Translated on every run from the working tree:

  simulator.py      Simulator.accept_interrupt, Simulator.run          -> Gen/PyLoops.lean, namespace PyLoop.Sim
  cmiosimulator.py  CMIOSimulator.accept_interrupt (+ inherited run)   -> Gen/PyLoops.lean, namespace PyLoop.Cmio
  trace.py          the Python loop of Tracer.run (loop CORE: the `else` branch of `if hasattr(simulator, 'trace')`; the prologue,
                    the C branch and the epilogue of the method are checked by exact text)   -> Gen/PyLoopCores.lean, `trace_run`
  rzxplay.py        the Python frame loop of process_block (loop CORE: `while fetch_counter > 0:`, the alternative of
                    `pc = simulator.exec_frame(...)`)                   -> Gen/PyLoopCores.lean, `frame_loop`
                    (both cores once over Simulator's closures, once over CMIOSimulator's)

The machine state is ONE mutable variable `st : St μ` (`registers[25]` is `st.t`, `registers[24] = v` is `st := { st with pc := v }`).
A loop `while True: ... break` / `while c: ...` becomes an *iteration function* `<f>_loop<k>_body : ... -> St -> Locals -> (St x Locals) x LoopExit Unit`
(statement order preserved; `break` = early return of `.break_`, a failing `while` test likewise) and the fuel-bounded iteration
`<f>_loop<k> := Z80.iterate body` (Prelude/Loop.lean); the enclosing function takes the fuel as its first explicit argument and returns
`(result, done)` with `done = false` when the fuel ran out inside a loop.  A loop core returns its final locals.

Accepted subset (anything else raises `Unsupported` = translator break):

  statements   assignment / augmented assignment to a local, `registers[k]`, `memory[a]` (also chained `a = registers[PC] = e`);
               `if/elif/else`; `while True:` / `while <cond>:` (not nested inside another translated loop); `break`;
               `return <bool literal | bool local>` (functions listed with a bool result only)
  expressions  int literals, locals, parameters, `registers[k]` (k a literal or the simutils constant PC / T, values checked), `memory[e]`,
               `R1[e]`-style module tables, + - * // % (divisor: positive literal or the frame duration), & | ^, comparisons,
               `x in (a, b)`, and/or/not, conditional expressions, `x is None` / `x is not None` / `x == y` on optional parameters
  calls        fixed idioms only:
                 opcodes[memory[E]]() / opcodes[E]()          one instruction selected by that byte (`<NS>.exec` on the main dispatch
                                                               table, as `Sim.step` models it)
                 self.accept_interrupt(registers, memory, E)  the translated method of the class
                 simulator.accept_interrupt(registers, memory, E)   (trace.py)
                 super().accept_interrupt(registers, memory, E)     the base-class translation
               callbacks, recognised by exact text, appended to the hidden local `cblog` (most recent first):
                 i = disassemble(memory, pc, prefix, byte_fmt, word_fmt)[0]          [0, pc]
                 print(trace_line.format(pc=pc, i=i, r=r, t=t0, m=memory))           [1, pc, t0]
                 trace_exec(tracefile, context, fetch_counter, pc, t0)               [1, fetch_counter, pc, t0]
                 exec_map.add(pc)                                                    [2, pc]
                 draw(scr, frame, self.border, keyboard)                             [3, frame]; its answer is the next value of
                                                                                     the hidden input stream `draws`
               dropped by exact text (no effect on the model): `scr = memory.memory[1][:6912]`, `scr = memory[16384:23296]`
  prelude      `opcodes = self.opcodes`, `memory = self.memory`, `registers = self.registers`,
               `frame_duration = self.frame_duration`, `int_active = self.int_active` (exact aliases; also of `simulator.`)

Types: Python ints -> Int; parameters declared optional (`start`, `stop`) -> Option Int (`None` = `none`); `interrupts` and the result of
`accept_interrupt` -> Bool; object parameters of the cores (`draw`, `exec_map`, `trace_line`, `tracefile`) -> Bool "is not None / truthy".
"""
import ast
import os
import re
import sys

sys.path.insert(0, os.path.dirname(os.path.abspath(__file__)))
import py2lean
from py2lean import Unsupported, lname, SPECIAL, FIELD

RECORD = 'st'            # the machine state is ONE mutable variable `st : St μ` (fields read as `st.t`, written with `{ st with t := … }`)
SFIELD = {k: FIELD[v] for k, v in SPECIAL.items()}     # 24 -> 'pc', 25 -> 't', ...
REG_NAMES = {'PC': 24, 'T': 25}                        # `from skoolkit.simutils import PC, T` (values checked in `check_reg_names`)
ALIASES = {'opcodes': 'opcodes', 'memory': 'memory', 'registers': 'registers'}
CFG_ALIASES = ('frame_duration', 'int_active')
TYNAME = {'int': 'Int', 'bool': 'Bool', 'opt': 'Option Int'}


class Fn:
    """what is to be translated: method `name` of `cls` in `path`; parameter types; result type or None"""

    def __init__(self, name, params, ret, exec_ns, accept_ns, super_ns=None):
        self.name, self.params, self.ret = name, params, ret
        self.exec_ns, self.accept_ns, self.super_ns = exec_ns, accept_ns, super_ns
        self.objects = ()           # parameters that stand for a Python object: Bool "is not None" / truthy


class LoopTr:
    def __init__(self, fn, func, tables, ns):
        self.fn, self.func, self.tables, self.ns = fn, func, tables, ns
        self.params = dict(fn.params)          # python name -> type
        self.locals = {}                       # python name -> type, in order of first assignment
        self.cfg_names = {}
        self.aliases = set()
        self.lines = []
        self.aux = []                          # auxiliary definitions (loop bodies, loops), in order
        self.tmp = 0
        self.nloops = 0
        self.in_loop = False
        self.has_loop = False
        self.uses_log = False       # a callback idiom was translated: hidden local `cblog : List (List Int)` (most recent first)
        self.uses_draws = False     # results of `draw(...)`: hidden local `draws : List Bool` (input stream, head first)
        self.bound = {}

    # ---- helpers -------------------------------------------------------------------------
    def fresh(self, base):
        self.tmp += 1
        return f'{base}{self.tmp}'

    def emit(self, ind, text):
        self.lines.append('  ' * ind + text)

    def err(self, msg, node=None):
        return Unsupported(f'{self.fn.name}: {msg}', node)

    def lv(self, name):
        return lname(name) if name not in ('pc',) else name

    def locals_struct(self):
        return f'{self.fn.name.capitalize()}Locals'

    def pack_locals(self):
        return '{ ' + ', '.join(f'{self.lv(n)} := {self.lv(n)}' for n in self.locals) + '⟪H⟫ }'

    def hidden(self):
        return (['cblog'] if self.uses_log else []) + (['draws'] if self.uses_draws else [])

    # ---- discovery -----------------------------------------------------------------------
    def discover(self, body):
        for st in body:
            for n in ast.walk(st):
                if isinstance(n, (ast.Assign, ast.AugAssign)):
                    if ast.unparse(n) in self.DROP:
                        continue
                    targets = n.targets if isinstance(n, ast.Assign) else [n.target]
                    for t in targets:
                        if isinstance(t, ast.Name):
                            if t.id in self.params:
                                raise self.err(f'assignment to parameter {t.id}', n)
                            if t.id not in self.locals:
                                self.locals[t.id] = None
                        elif isinstance(t, ast.Tuple):
                            raise self.err('tuple assignment', n)

    # ---- expressions -> (type, text) -------------------------------------------------------
    def expr(self, node):
        if isinstance(node, ast.Constant):
            if node.value is None:
                return 'none', 'none'
            if isinstance(node.value, bool):
                return 'bool', 'true' if node.value else 'false'
            if isinstance(node.value, int):
                return 'int', py2lean.lit(node.value)
            raise self.err(f'constant {node.value!r}', node)
        if isinstance(node, ast.Name):
            if node.id in self.cfg_names:
                return 'int', self.cfg_names[node.id]
            if node.id in self.params:
                return self.params[node.id], self.lv(node.id)
            if node.id in self.locals:
                ty = self.locals[node.id]
                if ty is None:
                    raise self.err(f'local {node.id} read before it is assigned', node)
                return ty, self.lv(node.id)
            raise self.err(f'unknown name {node.id}', node)
        if isinstance(node, ast.Attribute):
            if isinstance(node.value, ast.Name) and node.value.id in ('self', 'simulator') and node.attr in CFG_ALIASES:
                return 'int', f'cfg.{node.attr}'
            raise self.err('attribute ' + ast.unparse(node), node)
        if isinstance(node, ast.Subscript):
            if not isinstance(node.value, ast.Name):
                raise self.err('subscript base ' + ast.unparse(node.value), node)
            base = node.value.id
            if isinstance(node.slice, ast.Slice):
                raise self.err('slice', node)
            if base == 'registers' and 'registers' in self.aliases:
                i = self.reg_index(node.slice)
                if not (isinstance(i, ast.Constant) and isinstance(i.value, int)):
                    raise self.err('registers[] with a non-literal index', node)
                if i.value in SFIELD:
                    return 'int', f'st.{SFIELD[i.value]}'
                if not 0 <= i.value < 24:
                    raise self.err('register index out of range', node)
                return 'int', f'(rget st.reg {i.value})'
            if base == 'memory' and 'memory' in self.aliases:
                return 'int', f'(mget st.mem {self.as_int(node.slice)})'
            if base in self.tables and len(self.tables[base]['dims']) == 1 and self.tables[base]['leaf'] == 'int' \
                    and base not in self.locals and base not in self.params:
                return 'int', f'(Tbl.{base} {self.as_int(node.slice)})'
            raise self.err(f'subscript of {base}', node)
        if isinstance(node, ast.UnaryOp):
            if isinstance(node.op, ast.USub):
                return 'int', f'(- {self.as_int(node.operand)})'
            if isinstance(node.op, ast.Not):
                return 'prop', f'(¬ {self.as_prop(node.operand)})'
            raise self.err('unary operator', node)
        if isinstance(node, ast.BinOp):
            a = self.as_int(node.left)
            op = node.op
            if isinstance(op, (ast.FloorDiv, ast.Mod)):
                r = node.right
                b = self.as_int(r)
                if not ((isinstance(r, ast.Constant) and isinstance(r.value, int) and r.value > 0) or b == 'cfg.frame_duration'):
                    raise self.err('// or % by something other than a positive literal or the frame duration', node)
                return 'int', f'({a} {"/" if isinstance(op, ast.FloorDiv) else "%"} {b})'
            b = self.as_int(node.right)
            sym = {ast.Add: '+', ast.Sub: '-', ast.Mult: '*'}.get(type(op))
            if sym:
                return 'int', f'({a} {sym} {b})'
            fn = {ast.BitAnd: 'PyInt.land', ast.BitOr: 'PyInt.lor', ast.BitXor: 'PyInt.xor'}.get(type(op))
            if fn:
                return 'int', f'({fn} {a} {b})'
            raise self.err(f'binary operator {type(op).__name__}', node)
        if isinstance(node, ast.Compare):
            parts = []
            left = node.left
            for op, right in zip(node.ops, node.comparators):
                if isinstance(op, (ast.Is, ast.IsNot)):
                    lt, ltxt = self.expr(left)
                    if isinstance(right, ast.Constant) and right.value is None and lt == 'bool' and isinstance(left, ast.Name) \
                            and left.id in self.fn.objects:
                        # an object parameter represented by "is not None"
                        parts.append(f'{ltxt} = false' if isinstance(op, ast.Is) else f'{ltxt} = true')
                        left = right
                        continue
                    if not (isinstance(right, ast.Constant) and right.value is None and lt == 'opt'):
                        raise self.err('`is` other than <optional parameter> is [not] None', node)
                    parts.append(f'{ltxt} = none' if isinstance(op, ast.Is) else f'{ltxt} ≠ none')
                elif isinstance(op, (ast.In, ast.NotIn)):
                    if not isinstance(right, ast.Tuple):
                        raise self.err('in <non-tuple>', node)
                    x = self.as_int(left)
                    alts = ' ∨ '.join(f'{x} = {self.as_int(e)}' for e in right.elts)
                    parts.append(f'({alts})' if isinstance(op, ast.In) else f'(¬ ({alts}))')
                else:
                    sym = {ast.Eq: '=', ast.NotEq: '≠', ast.Lt: '<', ast.LtE: '≤', ast.Gt: '>', ast.GtE: '≥'}.get(type(op))
                    if sym is None:
                        raise self.err('comparison operator', node)
                    lt, ltxt = self.expr(left)
                    rt, rtxt = self.expr(right)
                    if 'opt' in (lt, rt):
                        # Python `==` between an int and an optional parameter (None equals no int)
                        if sym not in ('=', '≠') or {lt, rt} != {'opt', 'int'}:
                            raise self.err('ordering comparison with an optional parameter', node)
                        ltxt = ltxt if lt == 'opt' else f'some {ltxt}'
                        rtxt = rtxt if rt == 'opt' else f'some {rtxt}'
                        parts.append(f'{ltxt} {sym} {rtxt}')
                    else:
                        parts.append(f'{self.as_int(left)} {sym} {self.as_int(right)}')
                left = right
            return 'prop', '(' + ' ∧ '.join(parts) + ')'
        if isinstance(node, ast.BoolOp):
            sym = ' ∧ ' if isinstance(node.op, ast.And) else ' ∨ '
            return 'prop', '(' + sym.join(self.as_prop(v) for v in node.values) + ')'
        if isinstance(node, ast.IfExp):
            return 'int', f'(if {self.as_prop(node.test)} then {self.as_int(node.body)} else {self.as_int(node.orelse)})'
        if isinstance(node, ast.Call):
            # a recognised call with a result, inside a condition: its effect is emitted before the statement that tests it
            r = self.call(node, self.cur_ind)
            if r is None:
                raise self.err('call without a result used as a value', node)
            return r
        raise self.err(f'expression {type(node).__name__}: {ast.unparse(node)[:60]}', node)

    def as_int(self, node):
        ty, t = self.expr(node)
        if ty == 'int':
            return t
        if ty == 'prop':
            return f'(PyInt.p2i {t})'
        raise self.err(f'{ty} used as an int: {ast.unparse(node)[:40]}', node)

    def as_prop(self, node):
        """Python truth value"""
        ty, t = self.expr(node)
        if ty == 'prop':
            return t
        if ty == 'bool':
            return f'({t} = true)'
        if ty == 'int':
            return f'({t} ≠ 0)'
        raise self.err(f'truth value of {ty}: {ast.unparse(node)[:40]}', node)

    def reg_index(self, i):
        if isinstance(i, ast.Name) and i.id in REG_NAMES and i.id not in self.locals and i.id not in self.params:
            return ast.Constant(value=REG_NAMES[i.id])
        return i

    def log(self, ind, tag, vals):
        self.uses_log = True
        self.emit(ind, f'cblog := [{", ".join([str(tag)] + vals)}] :: cblog')

    # ---- fixed call idioms --------------------------------------------------------------------
    def is_regs_mem(self, args):
        return (len(args) == 3 and isinstance(args[0], ast.Name) and args[0].id == 'registers'
                and isinstance(args[1], ast.Name) and args[1].id == 'memory'
                and 'registers' in self.aliases and 'memory' in self.aliases)

    def unpack(self, ind, src):
        self.emit(ind, f'st := {src}')

    def call(self, c, ind):
        """a call in statement position or as the value of an assignment -> text of its Python result (or None)"""
        f = c.func
        # opcodes[memory[E]]()
        if isinstance(f, ast.Subscript) and isinstance(f.value, ast.Name) and f.value.id == 'opcodes' and 'opcodes' in self.aliases:
            if c.args or c.keywords:
                raise self.err('opcodes[...]() with arguments', c)
            i = f.slice
            if not (isinstance(i, ast.Subscript) and isinstance(i.value, ast.Name) and i.value.id == 'memory' and 'memory' in self.aliases):
                # opcodes[opcode]() with opcode = memory[pc] read before: any Int index
                idx = self.as_int(i)
            else:
                idx = f'(mget st.mem {self.as_int(i.slice)})'
            self.emit(ind, f'st := {self.fn.exec_ns}.exec cfg ({self.fn.exec_ns}.OpTbl.get .MAIN {idx}) st')
            return None
        if isinstance(f, ast.Attribute) and f.attr == 'accept_interrupt' and not c.keywords and self.is_regs_mem(c.args):
            tgt = None
            if isinstance(f.value, ast.Name) and f.value.id in ('self', 'simulator'):
                tgt = self.fn.accept_ns
            elif isinstance(f.value, ast.Call) and isinstance(f.value.func, ast.Name) and f.value.func.id == 'super' \
                    and not f.value.args and self.fn.super_ns:
                tgt = self.fn.super_ns
            if tgt is not None:
                r = self.fresh('ai')
                self.emit(ind, f'let {r} := {tgt}.accept_interrupt cfg {self.as_int(c.args[2])} {RECORD}')
                self.unpack(ind, f'{r}.1')
                return 'bool', f'{r}.2'
        t = ast.unparse(c)
        # accept_interrupt(registers, memory, E) through the alias `accept_interrupt = simulator.accept_interrupt` (rzxplay.py)
        if isinstance(f, ast.Name) and f.id == 'accept_interrupt' and 'accept_interrupt' in self.aliases and not c.keywords and self.is_regs_mem(c.args):
            r = self.fresh('ai')
            self.emit(ind, f'let {r} := {self.fn.accept_ns}.accept_interrupt cfg {self.as_int(c.args[2])} {RECORD}')
            self.unpack(ind, f'{r}.1')
            return 'bool', f'{r}.2'
        # fetch_counter = tracer.next_frame(): the next frame's fetch counter is an input
        if t == 'tracer.next_frame()' and self.params.get('next_frame') == 'int':
            return 'int', 'next_frame'
        # exec_map.add(pc)
        if t == 'exec_map.add(pc)' and self.params.get('exec_map') == 'bool':
            self.log(ind, 2, [self.as_int(c.args[0])])
            return None
        # print(trace_line.format(pc=pc, i=i, r=r, t=t0, m=memory))  (trace.py)
        if t == 'print(trace_line.format(pc=pc, i=i, r=r, t=t0, m=memory))' and self.params.get('trace_line') == 'bool':
            self.log(ind, 1, [self.as_int(ast.Name(id='pc')), self.as_int(ast.Name(id='t0'))])
            return None
        # trace_exec(tracefile, context, fetch_counter, pc, t0)  (rzxplay.py)
        if t == 'trace_exec(tracefile, context, fetch_counter, pc, t0)' and self.params.get('tracefile') == 'bool':
            self.log(ind, 1, [self.as_int(ast.Name(id='fetch_counter')), self.as_int(ast.Name(id='pc')), self.as_int(ast.Name(id='t0'))])
            return None
        # draw(scr, frame, self.border, keyboard): the screen callback's answer is the next value of the stream `draws`
        if t == 'draw(scr, frame, self.border, keyboard)' and self.params.get('draw') == 'bool':
            self.uses_draws = True
            self.log(ind, 3, [self.as_int(ast.Name(id='frame'))])
            r = self.fresh('dr')
            self.emit(ind, f'let {r} := draws.headD true')
            self.emit(ind, 'draws := draws.tail')
            return 'bool', r
        raise self.err('call ' + t[:80], c)

    # ---- statements -----------------------------------------------------------------------------
    def assign_to(self, t, ty, text, ind, node):
        if isinstance(t, ast.Name):
            if self.locals.get(t.id) not in (None, ty):
                raise self.err(f'local {t.id} assigned values of different types', node)
            if ty not in ('int', 'bool'):
                raise self.err(f'local {t.id} of type {ty}', node)
            self.locals[t.id] = ty
            self.emit(ind, f'{self.lv(t.id)} := {text}')
            return
        if isinstance(t, ast.Subscript) and isinstance(t.value, ast.Name) and not isinstance(t.slice, ast.Slice):
            if ty != 'int':
                raise self.err('non-int stored', node)
            if t.value.id == 'registers' and 'registers' in self.aliases:
                i = self.reg_index(t.slice)
                if not (isinstance(i, ast.Constant) and isinstance(i.value, int)):
                    raise self.err('registers[] with a non-literal index', node)
                if i.value in SFIELD:
                    self.emit(ind, f'st := {{ st with {SFIELD[i.value]} := {text} }}')
                    return
                if not 0 <= i.value < 24:
                    raise self.err('register index', node)
                self.emit(ind, f'st := {{ st with reg := rset st.reg {i.value} {text} }}')
                return
            if t.value.id == 'memory' and 'memory' in self.aliases:
                self.emit(ind, f'st := {{ st with mem := mset st.mem {self.as_int(t.slice)} {text} }}')
                return
        raise self.err('assignment target ' + ast.unparse(t), node)

    def value(self, v, ind):
        """-> (type, text) of an assigned value ('prop' is stored as a Bool)"""
        if isinstance(v, ast.Call):
            r = self.call(v, ind)
            if r is None:
                raise self.err('call without a result used as a value', v)
            return r
        ty, text = self.expr(v)
        if ty == 'prop':
            return 'bool', f'(decide {text})'
        if ty == 'opt':
            # an optional parameter stored: only under a test that it is not None (checked by the caller)
            raise self.err('optional value stored', v)
        return ty, text

    DROP = {
        'i = disassemble(memory, pc, prefix, byte_fmt, word_fmt)[0]': 0,      # logged: [0, pc]
        'scr = memory.memory[1][:6912]': None,
        'scr = memory[16384:23296]': None,
    }

    def stmt(self, st, ind):
        self.cur_ind = ind
        t = ast.unparse(st)
        if t in self.DROP:
            if self.DROP[t] == 0:
                if self.params.get('trace_line') != 'bool':
                    raise self.err('disassemble outside the trace-line idiom', st)
                self.log(ind, 0, [self.as_int(ast.Name(id='pc'))])
            else:
                self.emit(ind, f'-- {t}')
                self.emit(ind, 'pure ()')
            return
        if isinstance(st, ast.Assign):
            if len(st.targets) != 1:
                # pc = registers[PC] = start : evaluate once, assign left to right
                ty, text = self.value(st.value, ind)
                tmp = self.fresh('cv')
                self.emit(ind, f'let {tmp} := {text}')
                for t in st.targets:
                    self.assign_to(t, ty, tmp, ind, st)
                return
            t = st.targets[0]
            # registers[24] = start  under `if start is not None:` is handled in if_stmt (needs the binder)
            ty, text = self.value(st.value, ind)
            self.assign_to(t, ty, text, ind, st)
            return
        if isinstance(st, ast.AugAssign):
            cur = ast.BinOp(left=py2lean.ast_load(st.target), op=st.op, right=st.value)
            ast.copy_location(cur, st)
            ast.fix_missing_locations(cur)
            self.assign_to(st.target, 'int', self.as_int(cur), ind, st)
            return
        if isinstance(st, ast.If):
            return self.if_stmt(st, ind)
        if isinstance(st, ast.Expr) and isinstance(st.value, ast.Call):
            self.call(st.value, ind)
            return
        if isinstance(st, ast.While):
            return self.while_stmt(st, ind)
        if isinstance(st, ast.Break):
            if not self.in_loop:
                raise self.err('break outside a translated loop', st)
            self.emit(ind, f'return (({RECORD}, {self.pack_locals()}), .break_)')
            return
        if isinstance(st, ast.Return):
            if self.in_loop:
                raise self.err('return inside a loop', st)
            if self.fn.ret != 'bool' or st.value is None:
                raise self.err('return statement', st)
            ty, text = self.value(st.value, ind)
            if ty != 'bool':
                raise self.err('return of a non-bool', st)
            self.emit(ind, self.ret_text(text))
            return
        if isinstance(st, ast.Pass):
            self.emit(ind, 'pure ()')
            return
        raise self.err(f'statement {type(st).__name__}: {ast.unparse(st)[:70]}', st)

    def ret_text(self, val=None, done='true'):
        if self.fn.ret == 'locals':
            val = self.pack_locals()
        r = RECORD if val is None else f'({RECORD}, {val})'
        return f'return ({r}, {done})' if self.has_loop_fn else f'return {r}'

    def if_stmt(self, st, ind):
        # `if P is not None: <target> = P`  ->  the value under the binder
        t = st.test
        if (isinstance(t, ast.Compare) and len(t.ops) == 1 and isinstance(t.ops[0], ast.IsNot) and isinstance(t.left, ast.Name)
                and self.params.get(t.left.id) == 'opt' and isinstance(t.comparators[0], ast.Constant) and t.comparators[0].value is None
                and not st.orelse):
            p = t.left.id
            b = self.fresh('v')
            self.emit(ind, f'if let some {b} := {self.lv(p)} then')
            saved = self.params[p]
            self.params[p] = 'int'
            self.bound = getattr(self, 'bound', {})
            old_lv = self.lv

            def lv(name, old=old_lv, p=p, b=b):
                return b if name == p else old(name)
            self.lv = lv
            try:
                for s in st.body:
                    self.stmt(s, ind + 1)
            finally:
                self.lv = old_lv
                self.params[p] = saved
            return
        self.emit(ind, f'if {self.as_prop(t)} then')
        n0 = len(self.lines)
        for s in st.body:
            self.stmt(s, ind + 1)
        if len(self.lines) == n0:
            self.emit(ind + 1, 'pure ()')
        if st.orelse:
            self.emit(ind, 'else')
            for s in st.orelse:
                self.stmt(s, ind + 1)

    def while_stmt(self, st, ind):
        if self.in_loop:
            raise self.err('nested loop', st)
        if st.orelse:
            raise self.err('while/else', st)
        for n, ty in self.locals.items():
            if ty is None:
                # a local first assigned inside the loop: it needs a type before the loop state is packed
                self.locals[n] = 'int'
                self.late_locals.append(n)
        self.nloops += 1
        k = self.nloops
        name = f'{self.fn.name}_loop{k}'
        sig = self.sig()
        ls = self.locals_struct()
        # --- the iteration function
        outer_lines, self.lines = self.lines, []
        self.in_loop = True
        always = isinstance(st.test, ast.Constant) and st.test.value is True
        if not always:
            self.emit(1, f'if ¬ {self.as_prop(st.test)} then')
            self.emit(2, f'return (({RECORD}, {self.pack_locals()}), .break_)')
        for s in st.body:
            self.stmt(s, 1)
        self.emit(1, f'return (({RECORD}, {self.pack_locals()}), .continue_)')
        body_lines, self.lines = self.lines, outer_lines
        self.in_loop = False
        self.has_loop = True
        hd = (f'/-- one pass of the `while` loop at line {st.lineno} of `{self.fn.name}`: ((state, locals), how the pass ended) -/\n'
              f'@[loop_def] def {name}_body {{μ : Type}} [MemLike μ] (cfg : Cfg) {sig}(s : St μ) (l : {ls}) : (St μ × {ls}) × LoopExit Unit := Id.run do')
        pre = ['  let mut st := s'] + [f'  let mut {self.lv(n)} := l.{self.lv(n)}' for n in self.locals] + ['⟪HPRE⟫']
        self.aux.append('\n'.join([hd] + pre + body_lines))
        args = self.arg_names()
        self.aux.append(
            f'/-- the loop, at most `fuel` passes (`Z80.iterate`); `.continue_`: the fuel ran out -/\n'
            f'def {name} {{μ : Type}} [MemLike μ] (cfg : Cfg) {sig}(fuel : Nat) (s : St μ) (l : {ls}) : (St μ × {ls}) × LoopExit Unit :=\n'
            f'  iterate (fun x => {name}_body cfg {args}x.1 x.2) fuel (s, l)')
        # --- the call
        r = self.fresh('lp')
        self.emit(ind, f'let {r} := {name} cfg {args}fuel {RECORD} {self.pack_locals()}')
        self.unpack(ind, f'{r}.1.1')
        for n in self.locals:
            self.emit(ind, f'{self.lv(n)} := {r}.1.2.{self.lv(n)}')
        self.lines.append('  ' * ind + f'⟪HPOST {r}⟫')
        self.emit(ind, f'if {r}.2 = .continue_ then')
        self.emit(ind + 1, self.ret_text(self.default_ret(), done='false'))

    def default_ret(self):
        return {'bool': 'false', None: None, 'locals': None}[self.fn.ret]

    def sig(self):
        return ''.join(f'({self.lv(p)} : {TYNAME[t]}) ' for p, t in self.fn.params)

    def arg_names(self):
        return ''.join(f'{self.lv(p)} ' for p, _ in self.fn.params)

    # ---- a whole function -------------------------------------------------------------------------
    def translate(self, core=None, ambient=(), initial=()):
        """the whole method `self.func`, or (core given) a list of its statements: the *loop core*, whose free variables are
        the declared parameters, the aliases `ambient` and the locals `initial` (name, type: supplied by the caller); a core
        returns the final locals"""
        func = self.func
        if core is None:
            args = [a.arg for a in func.args.args]
            want = ['self'] + self.fn.pyargs
            if args != want:
                raise self.err(f'parameters {args}, expected {want}', func)
            body = list(func.body)
        else:
            args = []
            body = list(core)
            self.aliases |= set(ambient)
        # prelude aliases
        while body and isinstance(body[0], ast.Assign) and len(body[0].targets) == 1 and isinstance(body[0].targets[0], ast.Name) \
                and isinstance(body[0].value, ast.Attribute) and isinstance(body[0].value.value, ast.Name) and body[0].value.value.id in ('self', 'simulator') \
                and body[0].targets[0].id == body[0].value.attr and body[0].value.attr in ALIASES:
            self.aliases.add(body.pop(0).targets[0].id)
        if 'registers' in args:
            self.aliases.add('registers')
        if 'memory' in args:
            self.aliases.add('memory')
        self.has_loop_fn = any(isinstance(n, ast.While) for st in body for n in ast.walk(st))
        # `frame_duration = self.frame_duration` / `int_active = self.int_active` anywhere at statement level: aliases
        self.late_locals = []
        body = self.strip_cfg_aliases(body)
        for n, t in initial:
            self.locals[n] = t
        self.discover(body)
        for st in body:
            self.stmt(st, 1)
        fuel = '(fuel : Nat) ' if self.has_loop_fn else ''
        ls = self.locals_struct()
        if self.fn.ret == 'locals':
            rty = f'(St μ × {ls}) × Bool' if self.has_loop_fn else f'St μ × {ls}'
        else:
            rty = {'bool': 'St μ × Bool', None: 'St μ'}[self.fn.ret]
            if self.has_loop_fn:
                rty = f'({rty}) × Bool' if self.fn.ret else 'St μ × Bool'
        hid = self.hidden()
        hty = {'cblog': 'List (List Int)', 'draws': 'List Bool'}
        out = []
        if self.has_loop_fn or self.fn.ret == 'locals':
            out.append(f'/-- the locals of `{self.fn.name}` (the loop state besides the machine state)'
                       + ('; `cblog`: the calls made to the callbacks, most recent first ([0, pc] disassemble, [1, …] trace line, [2, pc] exec_map.add, '
                          '[3, frame] draw)' if 'cblog' in hid else '')
                       + ('; `draws`: the answers `draw` will give, head first' if 'draws' in hid else '')
                       + f' -/\nstructure {ls} where\n'
                       + '\n'.join([f'  {self.lv(n)} : {TYNAME[t or "int"]}' for n, t in self.locals.items()] + [f'  {h} : {hty[h]}' for h in hid]))
        out += self.aux
        isig = ''.join(f'({self.lv(n)}0 : {TYNAME[t]}) ' for n, t in initial) + ''.join(f'({h}0 : {hty[h]}) ' for h in hid)
        hd = f'@[loop_def] def {self.fn.name} {{μ : Type}} [MemLike μ] (cfg : Cfg) {fuel}{self.sig()}{isig}(s : St μ) : {rty} := Id.run do'
        pre = ['  let mut st := s']
        init_names = {n for n, _ in initial}
        for n, t in self.locals.items():
            v = f'{self.lv(n)}0' if n in init_names else ("false" if t == "bool" else "0")
            pre.append(f'  let mut {self.lv(n)} : {TYNAME[t or "int"]} := {v}')
        pre += [f'  let mut {h} : {hty[h]} := {h}0' for h in hid]
        lines = [hd] + pre + self.lines
        last = body[-1] if body else None
        if not isinstance(last, ast.Return):
            if self.fn.ret not in (None, 'locals'):
                raise self.err('function with a result does not end with a return statement', func)
            lines.append('  ' + self.ret_text())
        out.append('\n'.join(lines))
        text = '\n\n'.join(out)
        text = text.replace('⟪H⟫', ''.join(f', {h} := {h}' for h in hid))
        text = text.replace('⟪HPRE⟫\n', ''.join(f'  let mut {h} := l.{h}\n' for h in hid))
        text = re.sub(r'( *)⟪HPOST (\w+)⟫\n', lambda m: ''.join(f'{m.group(1)}{h} := {m.group(2)}.1.2.{h}\n' for h in hid), text)
        return text

    def strip_cfg_aliases(self, body):
        """`x = self.frame_duration` / `x = self.int_active` statements (x the attribute's own name) become aliases of
        the configuration value, wherever they stand in the function (they are assigned once, from constants)."""
        class Strip(ast.NodeTransformer):
            def __init__(s):
                s.found = {}

            def visit_Assign(s, n):
                if (len(n.targets) == 1 and isinstance(n.targets[0], ast.Name) and isinstance(n.value, ast.Attribute)
                        and isinstance(n.value.value, ast.Name) and n.value.value.id in ('self', 'simulator')
                        and n.value.attr in CFG_ALIASES and n.targets[0].id == n.value.attr):
                    s.found[n.targets[0].id] = s.found.get(n.targets[0].id, 0) + 1
                    return ast.Pass()
                return n
        sp = Strip()
        new = [sp.visit(st) for st in body]
        for name, cnt in sp.found.items():
            # assigned exactly once by the alias statement and nowhere else
            others = [n for st in new for n in ast.walk(st) if isinstance(n, (ast.Assign, ast.AugAssign))
                      for t in (n.targets if isinstance(n, ast.Assign) else [n.target]) if isinstance(t, ast.Name) and t.id == name]
            if cnt != 1 or others:
                raise self.err(f'{name} is assigned more than once')
            self.cfg_names[name] = f'cfg.{name}'
        # drop the `pass` placeholders where a block keeps other statements
        class Clean(ast.NodeTransformer):
            def generic_visit(s, n):
                super().generic_visit(n)
                for fld in ('body', 'orelse'):
                    b = getattr(n, fld, None)
                    if isinstance(b, list) and any(isinstance(x, ast.Pass) for x in b) and any(not isinstance(x, ast.Pass) for x in b):
                        setattr(n, fld, [x for x in b if not isinstance(x, ast.Pass)])
                return n
        mod = ast.Module(body=new, type_ignores=[])
        Clean().visit(mod)
        return mod.body


def method(repo, path, cls, name):
    with open(os.path.join(repo, path)) as f:
        mod = ast.parse(f.read(), path)
    c = py2lean.find_class(mod, cls)
    for m in c.body:
        if isinstance(m, ast.FunctionDef) and m.name == name:
            return m
    return None


def has_method(repo, path, cls, name):
    return method(repo, path, cls, name) is not None


def fn_accept(exec_ns, accept_ns, super_ns=None):
    f = Fn('accept_interrupt', [('prev_pc', 'int')], 'bool', exec_ns, accept_ns, super_ns)
    f.pyargs = ['registers', 'memory', 'prev_pc']
    return f


def fn_run(exec_ns, accept_ns):
    f = Fn('run', [('start', 'opt'), ('stop', 'opt'), ('interrupts', 'bool')], None, exec_ns, accept_ns)
    f.pyargs = ['start', 'stop', 'interrupts']
    return f


def check_defaults(m, want, what):
    got = [ast.unparse(d) for d in m.args.defaults]
    if got != want:
        raise Unsupported(f'{what}: parameter defaults {got}, expected {want}')


HEADER = ['import SkoolVerif.Gen.SimHandlers', 'import SkoolVerif.Gen.CmioHandlers', 'import SkoolVerif.Prelude.Loop',
          'set_option linter.unusedVariables false', 'open Z80', '']


def gen(repo):
    """-> text of Gen/PyLoops.lean"""
    tables, _, _ = py2lean.collect_tables(repo)
    out = ['-- GENERATED by translate/pyloop2lean.py from skoolkit/simulator.py, skoolkit/cmiosimulator.py '
           '(Simulator.accept_interrupt, Simulator.run, CMIOSimulator.accept_interrupt). Do not edit.'] + HEADER
    sim = 'skoolkit/simulator.py'
    cmio = 'skoolkit/cmiosimulator.py'
    # ---- Simulator
    out.append('namespace PyLoop.Sim\n')
    m = method(repo, sim, 'Simulator', 'accept_interrupt')
    if m is None:
        raise Unsupported('simulator.py: Simulator.accept_interrupt not found')
    out.append(LoopTr(fn_accept('_root_.Sim', 'PyLoop.Sim'), m, tables, 'PyLoop.Sim').translate() + '\n')
    m = method(repo, sim, 'Simulator', 'run')
    if m is None:
        raise Unsupported('simulator.py: Simulator.run not found')
    check_defaults(m, ['None', 'None', 'False'], 'Simulator.run')
    out.append(LoopTr(fn_run('_root_.Sim', 'PyLoop.Sim'), m, tables, 'PyLoop.Sim').translate() + '\n')
    out.append('end PyLoop.Sim\n')
    # ---- CMIOSimulator: accept_interrupt overridden, run inherited (the same text over the contended closures)
    out.append('namespace PyLoop.Cmio\n')
    m = method(repo, cmio, 'CMIOSimulator', 'accept_interrupt')
    if m is None:
        out.append(LoopTr(fn_accept('_root_.Cmio', 'PyLoop.Cmio'), method(repo, sim, 'Simulator', 'accept_interrupt'), tables, 'PyLoop.Cmio').translate() + '\n')
    else:
        out.append(LoopTr(fn_accept('_root_.Cmio', 'PyLoop.Cmio', 'PyLoop.Sim'), m, tables, 'PyLoop.Cmio').translate() + '\n')
    m = method(repo, cmio, 'CMIOSimulator', 'run')
    if m is None:
        m = method(repo, sim, 'Simulator', 'run')
    else:
        check_defaults(m, ['None', 'None', 'False'], 'CMIOSimulator.run')
    out.append(LoopTr(fn_run('_root_.Cmio', 'PyLoop.Cmio'), m, tables, 'PyLoop.Cmio').translate() + '\n')
    out.append('end PyLoop.Cmio\n')
    return '\n'.join(out)


# --------------------------------------------------------------------------------------------
# loop cores of trace.py (Tracer.run) and rzxplay.py (process_block)
# --------------------------------------------------------------------------------------------
TRACE_PROLOGUE = [
    'simulator = self.simulator', 'memory = simulator.memory', 'is128k = len(memory) == 131072', 'registers = simulator.registers',
    'start_time = registers[T]',
    'if max_tstates > 0:\n    max_time = start_time + max_tstates\nelse:\n    max_time = 0',
    'if draw:\n    self.keyboard = [0] * 8', 'keyboard = self.keyboard',
    'if trace_line:\n    r = Registers(registers)', 'if trace_header:\n    print(trace_header)',
]
TRACE_ARGS = ['start', 'stop', 'max_operations', 'max_tstates', 'interrupts', 'draw', 'exec_map', 'trace_header', 'trace_line', 'prefix',
              'byte_fmt', 'word_fmt']
TRACE_C_BRANCH = ('if trace_line:\n    df = lambda pc: disassemble(memory, pc, prefix, byte_fmt, word_fmt)[0]\n'
                  '    tf = lambda pc, i, t0: print(trace_line.format(pc=pc, i=i, r=r, t=t0, m=memory))\nelse:\n    df = tf = None\n'
                  'stop_cond, operations = simulator.trace(start, stop, max_operations, max_time, interrupts, draw, exec_map, keyboard, df, tf)')


def fn_trace(exec_ns, accept_ns):
    f = Fn('trace_run', [('start', 'int'), ('stop', 'opt'), ('max_operations', 'int'), ('max_time', 'int'), ('interrupts', 'bool'),
                         ('draw', 'bool'), ('exec_map', 'bool'), ('trace_line', 'bool'), ('start_time', 'int'), ('is128k', 'bool')],
           'locals', exec_ns, accept_ns)
    f.objects = ('draw', 'exec_map', 'trace_line')
    return f


def trace_core(repo):
    """`Tracer.run` of trace.py: the prologue, the C branch (`hasattr(simulator, 'trace')`) and the epilogue are checked by exact text; the
    `else` branch — the Python loop with its start-up — is the core"""
    path = 'skoolkit/trace.py'
    m = method(repo, path, 'Tracer', 'run')
    if m is None:
        raise Unsupported('trace.py: Tracer.run not found')
    if [a.arg for a in m.args.args] != ['self'] + TRACE_ARGS:
        raise Unsupported(f'trace.py: Tracer.run parameters {[a.arg for a in m.args.args]}')
    body = list(m.body)
    pro = [ast.unparse(st) for st in body[:len(TRACE_PROLOGUE)]]
    if pro != TRACE_PROLOGUE:
        bad = next((a for a, b in zip(pro, TRACE_PROLOGUE) if a != b), pro[-1] if pro else '')
        raise Unsupported(f'trace.py: Tracer.run: prologue changed at `{bad[:70]}`')
    rest = body[len(TRACE_PROLOGUE):]
    if not (rest and isinstance(rest[0], ast.If) and ast.unparse(rest[0].test) == "hasattr(simulator, 'trace')"):
        raise Unsupported("trace.py: Tracer.run: `if hasattr(simulator, 'trace')` not found after the prologue")
    if '\n'.join(ast.unparse(x) for x in rest[0].body) != TRACE_C_BRANCH:
        raise Unsupported('trace.py: Tracer.run: the C branch (simulator.trace call) changed')
    # the epilogue may only read stop_cond / operations / registers: messages and `self.operations = operations`
    for st in rest[1:]:
        t = ast.unparse(st)
        ok = t.startswith('stop_msg = ') or t == 'self.operations = operations' or (
            isinstance(st, ast.If) and all(isinstance(n, (ast.If, ast.Expr, ast.Compare, ast.Name, ast.Constant, ast.Load, ast.Call, ast.JoinedStr,
                                                          ast.FormattedValue, ast.Eq, ast.BinOp, ast.Sub, ast.Subscript, ast.Attribute)) for n in ast.walk(st))
            and all(ast.unparse(c.func) == 'print' for c in ast.walk(st) if isinstance(c, ast.Call)))
        if not ok:
            raise Unsupported(f'trace.py: Tracer.run: epilogue statement `{t[:70]}`')
    return m, rest[0].orelse


FRAME_AMBIENT = ["opcodes = simulator.opcodes if hasattr(simulator, 'opcodes') else None", 'memory = simulator.memory', 'registers = simulator.registers']


def fn_frame(exec_ns, accept_ns):
    f = Fn('frame_loop', [('exec_map', 'bool'), ('tracefile', 'bool')], 'locals', exec_ns, accept_ns)
    f.objects = ('exec_map', 'tracefile')
    return f


def frame_core(repo):
    """`process_block` of rzxplay.py: the inner loop `while fetch_counter > 0:` (Python simulators) is the core"""
    path = 'skoolkit/rzxplay.py'
    with open(os.path.join(repo, path)) as f:
        mod = ast.parse(f.read(), path)
    fns = [st for st in mod.body if isinstance(st, ast.FunctionDef) and st.name == 'process_block']
    if len(fns) != 1:
        raise Unsupported('rzxplay.py: process_block not found')
    fn = fns[0]
    top = [ast.unparse(st) for st in fn.body]
    for t in FRAME_AMBIENT:
        if top.count(t) != 1:
            raise Unsupported(f'rzxplay.py: process_block: `{t}` not found exactly once at function level')
    loops = [n for n in ast.walk(fn) if isinstance(n, ast.While) and ast.unparse(n.test) == 'fetch_counter > 0']
    if len(loops) != 1:
        raise Unsupported('rzxplay.py: process_block: `while fetch_counter > 0:` not found exactly once')
    # it is the `else` branch of `if csimulator:` inside `while run:`
    outer = [n for n in ast.walk(fn) if isinstance(n, ast.If) and ast.unparse(n.test) == 'csimulator' and n.orelse == [loops[0]]]
    if len(outer) != 1 or ast.unparse(outer[0].body[0]) != 'pc = simulator.exec_frame(fetch_counter, exec_map, trace)':
        raise Unsupported('rzxplay.py: process_block: the frame loop is not the alternative of `pc = simulator.exec_frame(fetch_counter, exec_map, trace)`')
    return fn, [loops[0]]


BOUNDARY_AMBIENT = FRAME_AMBIENT + ['accept_interrupt = simulator.accept_interrupt', 'flags_ldair = flags & 1', 'flags_ei = flags & 2']


def fn_boundary(exec_ns, accept_ns):
    return Fn('frame_boundary', [('flags_ldair', 'int'), ('flags_ei', 'int'), ('pc', 'int'), ('next_frame', 'int')], 'locals', exec_ns, accept_ns)


def boundary_core(repo):
    """`process_block` of rzxplay.py: the end-of-frame code `registers[25] = 0; fetch_counter = tracer.next_frame(); if registers[26]: ...`"""
    path = 'skoolkit/rzxplay.py'
    with open(os.path.join(repo, path)) as f:
        mod = ast.parse(f.read(), path)
    fn = [st for st in mod.body if isinstance(st, ast.FunctionDef) and st.name == 'process_block'][0]
    top = [ast.unparse(st) for st in fn.body]
    for t in BOUNDARY_AMBIENT:
        if top.count(t) != 1:
            raise Unsupported(f'rzxplay.py: process_block: `{t}` not found exactly once at function level')
    loops = [st for st in fn.body if isinstance(st, ast.While) and ast.unparse(st.test) == 'run']
    if len(loops) != 1:
        raise Unsupported('rzxplay.py: process_block: `while run:` not found exactly once')
    body = loops[0].body
    texts = [ast.unparse(st) for st in body]
    if texts.count('registers[25] = 0') != 1:
        raise Unsupported('rzxplay.py: process_block: `registers[25] = 0` not found exactly once in the frame loop')
    k = texts.index('registers[25] = 0')
    if not (k + 2 < len(body) and texts[k + 1] == 'fetch_counter = tracer.next_frame()' and isinstance(body[k + 2], ast.If)
            and ast.unparse(body[k + 2].test) == 'registers[26]' and not body[k + 2].orelse):
        raise Unsupported('rzxplay.py: process_block: end-of-frame code is not `registers[25] = 0; fetch_counter = tracer.next_frame(); if registers[26]: ...`')
    # nothing between the frame loop and the end-of-frame code may touch the simulator: draw / border bookkeeping only
    between = texts[:k]
    return fn, body[k:k + 3]


def check_reg_names(repo):
    with open(os.path.join(repo, 'skoolkit/simutils.py')) as f:
        mod = ast.parse(f.read())
    vals = {}
    for st in mod.body:
        if isinstance(st, ast.Assign) and len(st.targets) == 1 and isinstance(st.targets[0], ast.Name) and isinstance(st.value, ast.Constant):
            vals[st.targets[0].id] = st.value.value
    for k, v in REG_NAMES.items():
        if vals.get(k) != v:
            raise Unsupported(f'simutils.py: {k} = {vals.get(k)} (expected {v})')


def gen_cores(repo):
    """-> text of Gen/PyLoopCores.lean"""
    tables, _, _ = py2lean.collect_tables(repo)
    check_reg_names(repo)
    out = ['-- GENERATED by translate/pyloop2lean.py from skoolkit/trace.py (Tracer.run, Python loop) and skoolkit/rzxplay.py '
           '(process_block, Python frame loop). Do not edit.', 'import SkoolVerif.Gen.PyLoops', 'set_option linter.unusedVariables false', 'open Z80', '']
    m, core = trace_core(repo)
    fm, fcore = frame_core(repo)
    for ns, root in (('PyLoop.Sim', '_root_.Sim'), ('PyLoop.Cmio', '_root_.Cmio')):
        out.append(f'namespace {ns}\n')
        out.append(LoopTr(fn_trace(root, ns), m, tables, ns).translate(core=core, ambient=('registers', 'memory')) + '\n')
        out.append(LoopTr(fn_frame(root, ns), fm, tables, ns).translate(core=fcore, ambient=('registers', 'memory', 'opcodes'),
                                                                          initial=(('fetch_counter', 'int'), ('pc', 'int'))) + '\n')
        bm, bcore = boundary_core(repo)
        out.append(LoopTr(fn_boundary(root, ns), bm, tables, ns).translate(core=bcore, ambient=('registers', 'memory', 'accept_interrupt')) + '\n')
        out.append(f'end {ns}\n')
    return '\n'.join(out)


if __name__ == '__main__':
    repo = sys.argv[1] if len(sys.argv) > 1 else '/repo'
    outdir = sys.argv[2] if len(sys.argv) > 2 else os.path.join(os.path.dirname(os.path.abspath(__file__)), '..', 'lean', 'SkoolVerif', 'Gen')
    text = gen(repo)
    open(os.path.join(outdir, 'PyLoops.lean'), 'w').write(text)
    open(os.path.join(outdir, 'PyLoopCores.lean'), 'w').write(gen_cores(repo))
    print('generated PyLoops.lean, PyLoopCores.lean')
