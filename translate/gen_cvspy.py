#!/usr/bin/env python3
"""Emits Gen/CVsPy/<handler>.lean, Gen/CCmioVsPy/<handler>.lean (one module per handler, so that a change of one C
function re-checks only that function's theorems) and the lifts Gen/CVsPyThms.lean, Gen/CCmioVsPyThms.lean:
for every handler of c/csimulator.c (translated by translate/c2lean.py) the theorem that it computes exactly the
state the Python closure of the same name (translated by translate/py2lean.py) computes:

    ceq_<name> : instrWf (.<name> args) = true → cArgsOk (.<name> args) = true → RInv s → CRep cfg s →
                 CSimH.<name> cfg args s = Sim.<name> cfg args s            (CCmioH / Cmio for -DCONTENTION)

and the lift `c_execLeaf_eq` to any dispatch row.  One generic tactic (`ceq_tac`, Proofs/CVsPyDefs.lean) closes every
handler; nothing below mentions a handler's internals:
  MANUAL   picks a closure-independent variant of the tactic (`ceq_tac_regs` for the register shuffles);
  PARTIAL  handlers that get an extra hypothesis (a genuine difference between C and Python on states satisfying
           RInv/instrWf) and the suffix `_partial`;
  CASES    handlers whose proof is split into several lemmas by a case distinction on arguments / configuration,
           only so that the cases are checked in parallel (one module per case lemma: Gen/CVsPy/<handler>_<case>.lean;
           one lemma costs 2-60 CPU-seconds)."""
import os
import sys

sys.path.insert(0, os.path.dirname(os.path.abspath(__file__)))
import py2lean
import c2lean
from py2lean import lname

REGS = '  all_goals ceq_tac_regs'
HOUT = 'cfg.out_tracer = true ∨ ∀ p v, MemLike.portOut s.mem p v = s.mem'
# name -> tactic script replacing `all_goals ceq_tac` (string, or {'CSimH': ..., 'CCmioH': ...})
MANUAL = {'exx': REGS, 'ex_af': REGS, 'ex_de_hl': REGS}
# name -> (extra hypothesis, binder): C pages 128K memory itself in OUT (whether or not a tracer is attached);
# Python only through the tracer's write_port.  Props/C06.lean states the finding.
PARTIAL = {'out_a': (HOUT, 'hout'), 'out_c': (HOUT, 'hout'), 'outi': (HOUT, 'hout')}

# Case distinctions.  Each case: (suffix, [(binder, hypothesis)], rewrite rules passed to ceq_tac, tactic lines run
# before it).  COMBINE: the script that derives the theorem from the case lemmas (`{args}` = the lemma's arguments).
OUT_CASES = [('t', [('hot', 'cfg.out_tracer = true')], ['hot'], []),
             ('f', [('hot', '¬ cfg.out_tracer = true')], ['hot', 'hpo'], ['  all_goals (have hpo := hout.resolve_left hot)'])]
OUT_COMBINE = ('  by_cases hot : cfg.out_tracer = true\n  · exact ceq_{name}{sfx}_t {args} hot\n'
               '  · exact ceq_{name}{sfx}_f {args} hot')


def rep_cases(tracer, rules_extra=(), pre_extra=()):
    cs = []
    for r in (0, 1):
        for tv in ('t', 'f'):
            hyp = f'cfg.{tracer} = true' if tv == 't' else f'¬ cfg.{tracer} = true'
            cs.append((f'r{r}{tv}', [('hk', f'repeat_ = {r}'), ('htr', hyp)], ['htr'] + (list(rules_extra) if tv == 'f' else []),
                       list(pre_extra) if tv == 'f' else []))
    return cs


def rep_combine(tracer):
    return ('  have hk : repeat_ = 0 ∨ repeat_ = 1 := by\n'
            '    simp only [{pns}.instrWf, Bool.and_eq_true, decide_eq_true_eq] at hwf; omega\n'
            f'  by_cases htr : cfg.{tracer} = true <;> rcases hk with hk | hk\n'
            '  · exact ceq_{name}{sfx}_r0t {args} hk htr\n  · exact ceq_{name}{sfx}_r1t {args} hk htr\n'
            '  · exact ceq_{name}{sfx}_r0f {args} hk htr\n  · exact ceq_{name}{sfx}_r1f {args} hk htr')


SP_CASES = [('sp', [('hp', 'rl = 12 ∧ rh = 13')], [], []), ('rr', [('hp', 'rl ≠ 12 ∧ rh ≠ 13')], [], [])]
SP_COMBINE = ('  have hp : (rl = 12 ∧ rh = 13) ∨ (rl ≠ 12 ∧ rh ≠ 13) := by\n'
              '    simp only [{pns}.instrWf, Bool.and_eq_true, decide_eq_true_eq] at hwf; exact hwf.2\n'
              '  rcases hp with hp | hp\n  · exact ceq_{name}{sfx}_sp {args} hp\n  · exact ceq_{name}{sfx}_rr {args} hp')
CASES = {
    'out_a': (OUT_CASES, OUT_COMBINE), 'out_c': (OUT_CASES, OUT_COMBINE),
    'outi': (rep_cases('out_tracer', ['hpo'], ['  all_goals (have hpo := hout.resolve_left htr)']), rep_combine('out_tracer')),
    'ini': (rep_cases('ini_tracer'), rep_combine('ini_tracer')),
    'add_rr': (SP_CASES, SP_COMBINE), 'adc_hl': (SP_CASES, SP_COMBINE), 'sbc_hl': (SP_CASES, SP_COMBINE),
}

def sig_of(h):
    return ' '.join(f'({lname(p)} : {"Int" if h["kinds"][p] == "int" else "Tbl" + h["kinds"][p]})' for p in h['params'])


def script(name, ns):
    m = MANUAL.get(name)
    if isinstance(m, dict):
        m = m.get(ns)
    return m


def theorem_text(name, h, cns, pns, kinds_names, case=None):
    """One lemma.  case = None: the handler's theorem (or, for a CASES handler, the combination of its case lemmas)."""
    ps = ' '.join(lname(p) for p in h['params'])
    app = f'{name} cfg {ps} s'.replace('  ', ' ')
    extra, suffix = '', ''
    if name in PARTIAL:
        extra = f' ({PARTIAL[name][1]} : {PARTIAL[name][0]})'
        suffix = '_partial'
    head_args = f'cfg {ps} s hwf hc h hrep'.replace('  ', ' ') + (f' {PARTIAL[name][1]}' if name in PARTIAL else '')
    cname = f'ceq_{name}{suffix}'
    case_binders = ''
    rules, case_pre = [], []
    if case is not None:
        sfx, hyps, rules, case_pre = case
        cname += '_' + sfx
        case_binders = ''.join(f' ({b} : {t})' for b, t in hyps)
    stmt = (f'set_option maxHeartbeats 2000000 in\n'
            f'theorem {cname} (cfg : Cfg) {sig_of(h)} (s : St μ) (hwf : {pns}.instrWf (.{name} {ps}) = true)\n'
            f'    (hc : cArgsOk (.{name} {ps}) = true) (h : RInv s) (hrep : CRep cfg s){extra}{case_binders} :\n'
            f'    {cns}.{app} = {pns}.{app} := by\n').replace('  s)', ' s)').replace('  (s', ' (s').replace('  )', ' )')
    if case is None and name in CASES:
        comb = CASES[name][1].format(name=name, sfx=suffix, args=head_args, pns=pns)
        return stmt + comb + '\n'
    pre0, pre = [], []
    has_r = 'r_inc' in h['params']
    has_t = 'timing' in h['params']
    pre0.append('  simp only [cArgsOk, Bool.and_eq_true, decide_eq_true_eq] at hc')
    # hc : ((c1 ∧ c2) ∧ c3) ...  (left-nested, in the order cArgsOk lists them: r_inc, timing, extras)
    names = (['hri'] if has_r else []) + (['htm'] if has_t else []) + [f'hx{k}' for k in range(len(c2lean.EXTRA_ARGS.get(name, [])))]
    if len(names) > 1:
        pat = names[0]
        for n in names[1:]:
            pat = f'⟨{pat}, {n}⟩'
        pre0.append(f'  obtain {pat} := hc')
    elif names == ['hri']:
        pre0.append('  have hri := hc')
    for p in h['params']:
        if p in py2lean.TABLE_IS_ROLE and h['kinds'][p] != 'int' and len(kinds_names[h['kinds'][p]]) == 1:
            # a one-constructor enumeration: `p = .X` holds by eta, so `subst` has nothing to do
            pre.append(f'  all_goals cases {lname(p)}')
    if has_r:
        pre.append('  all_goals (have hrinc := tblget_rinc r_inc hri)')
        rules = ['hrinc'] + list(rules)
    pre += case_pre
    tac = script(name, cns) or ('  all_goals ceq_tac' + (f' [{", ".join(rules)}]' if rules else ''))
    body = ('  obtain ⟨hr, hm, hpc, ht0, hiff, him, hhalt, hmp, hins⟩ := h\n'
            '  obtain ⟨htlt, hfd0, hfd1, hia, hct0, hct1⟩ := hrep\n'
            f'  simp only [{pns}.instrWf, Bool.and_eq_true, decide_eq_true_eq] at hwf\n'
            + ''.join(x + '\n' for x in pre0) +
            '  all_goals unfold_ranges\n  all_goals split_hyps\n  all_goals try omega\n  all_goals try subst_vars\n'
            + ''.join(x + '\n' for x in pre) + tac + '\n')
    return stmt + body


def gen(repo, contention=False):
    """-> {relative file name under Gen/: text}"""
    cns, pns = ('CCmioH', 'Cmio') if contention else ('CSimH', 'Sim')
    base = 'CCmioVsPy' if contention else 'CVsPy'
    sub = 'CCmioH' if contention else 'CH'
    _, meta = c2lean.translate(repo, contention)
    handlers = meta['py']
    _, _, stmeta = py2lean.gen_simtables(repo)
    kinds_names = stmeta['kinds']

    def head(name):
        return [f'-- GENERATED by translate/gen_cvspy.py from the handler list of the current sources. Do not edit.',
                f'import SkoolVerif.Gen.{sub}.{name}', f'import SkoolVerif.Gen.{"CCmioArgs" if contention else "CArgs"}',
                f'import SkoolVerif.Gen.{pns}Handlers', 'import SkoolVerif.Proofs.CVsPyDefs', 'import SkoolVerif.Proofs.CVsPyManual']

    common = ['set_option linter.unusedVariables false', 'set_option linter.unusedSimpArgs false',
              'set_option linter.unusedSectionVars false',
              'open Z80 TableRanges' + (' Contend' if contention else ''), f'namespace {cns}', '',
              'variable {μ : Type} [MemLike μ] [CellMem μ]' + (' [PageStable μ]' if contention else ''), '']
    files = {}
    mods = []
    for name, h in handlers.items():
        if name in CASES:
            # one module per case lemma (checked in parallel) + the module that combines them
            for c in CASES[name][0]:
                mod = f'{name}_{c[0]}'
                files[f'{base}/{mod}.lean'] = '\n'.join(head(name) + common) + theorem_text(name, h, cns, pns, kinds_names, case=c) + f'\nend {cns}\n'
            imports = [f'import SkoolVerif.Gen.{base}.{name}_{c[0]}' for c in CASES[name][0]]
            files[f'{base}/{name}.lean'] = ('\n'.join(head(name)[:1] + imports + common) + theorem_text(name, h, cns, pns, kinds_names)
                                            + f'\nend {cns}\n')
        else:
            files[f'{base}/{name}.lean'] = '\n'.join(head(name) + common) + theorem_text(name, h, cns, pns, kinds_names) + f'\nend {cns}\n'
        mods.append(name)
    # main file: the lift to any dispatch row
    out = [f'-- GENERATED by translate/gen_cvspy.py from the handler list of the current sources. Do not edit.']
    out += [f'import SkoolVerif.Gen.{base}.{m}' for m in mods]
    out += [f'import SkoolVerif.Gen.{"CCmioHandlers" if contention else "CHandlers"}'] + common
    out.append('/-- the extra hypothesis of the `_partial` theorems (see Props/C06.lean): the configuration has an `out_tracer`, or port\n'
               'writes do not change the memory (48K) -/')
    out.append(f'def OutOk (cfg : Cfg) (s : St μ) : Prop := {HOUT}\n')
    out.append('/-- any dispatch row: the C handler computes exactly the state the Python closure computes -/')
    out.append(f'theorem c_execLeaf_eq (cfg : Cfg) (i : {pns}.Instr) (hwf : {pns}.instrWf i = true) (hc : cArgsOk i = true)\n'
               f'    (s : St μ) (h : RInv s) (hrep : CRep cfg s) (hout : OutOk cfg s) :\n'
               f'    {cns}.execLeaf cfg i s = {pns}.execLeaf cfg i s := by\n  cases i <;> simp only [{cns}.execLeaf, {pns}.execLeaf]')
    for name, h in handlers.items():
        us = ' '.join('_' for _ in h['params'])
        sfx = '_partial' if name in PARTIAL else ''
        out.append(f'  · exact ceq_{name}{sfx} cfg {us} s hwf hc h hrep'.replace('  s', ' s') + (' hout' if name in PARTIAL else ''))
    out.append(f'\nend {cns}')
    files[f'{base}Thms.lean'] = '\n'.join(out) + '\n'
    return files


if __name__ == '__main__':
    repo = sys.argv[1] if len(sys.argv) > 1 else '/repo'
    outdir = os.path.join(os.path.dirname(os.path.abspath(__file__)), '..', 'lean', 'SkoolVerif', 'Gen')
    for cont in (False, True):
        c2lean.write_files(outdir, gen(repo, cont))
    print('generated CVsPyThms, CCmioVsPyThms (+ one module per handler / case)')
