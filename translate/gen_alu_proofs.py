#!/usr/bin/env python3
"""Writes lean/SkoolVerif/Proofs/Alu/*.lean: kernel enumeration of every simtables entry against the
bit-level spec, sliced into files of ~16k entries so `lake` checks them on all cores.  The output
is static text (it names tables and checkers only); regenerate only when the table list changes."""
import os

HERE = os.path.dirname(os.path.abspath(__file__))
OUT = os.path.join(HERE, '..', 'lean', 'SkoolVerif', 'Proofs', 'Alu')

# name -> (dims, index of the dim that is sliced, number of slices); each slice (~2k entries) is its own
# theorem (the kernel's memory use is per declaration: ~5.5 GB for one 16k-entry theorem, < 1 GB for 2k),
# PER_FILE slices share a file.
PER_FILE = 8
BIG = {
    'ADC': ((2, 256, 256), 1, 64), 'SBC': ((2, 256, 256), 1, 64),
    'AND': ((256, 256), 0, 32), 'OR': ((256, 256), 0, 32), 'XOR': ((256, 256), 0, 32), 'CP': ((256, 256), 0, 32),
    'CPL': ((256, 256), 0, 32), 'DAA': ((256, 256), 0, 32), 'RLA': ((256, 256), 0, 32), 'RLCA': ((256, 256), 0, 32),
    'RRA': ((256, 256), 0, 32), 'RRCA': ((256, 256), 0, 32), 'CCF': ((256, 256), 0, 32), 'SCF': ((256, 256), 0, 32),
}
SMALL = {
    'BIT': (2, 8, 256), 'ADC_A_A': (2, 256), 'SBC_A_A': (2, 256), 'INC': (2, 256), 'DEC': (2, 256), 'RL': (2, 256),
    'RR': (2, 256), 'RLC': (256,), 'RRC': (256,), 'SLA': (256,), 'SLL': (256,), 'SRA': (256,), 'SRL': (256,),
    'NEG': (256,), 'SZ53P': (256,), 'PARITY': (256,), 'R1': (256,), 'R2': (256,),
}
VARS = 'xyz'


def nest(dims, order, body):
    """allLt d (fun v => ...) nested in the given variable order."""
    s = body
    for k in reversed(order):
        s = f'allLt {dims[k]} (fun {VARS[k]} => {s})'
    return s


def main():
    os.makedirs(OUT, exist_ok=True)
    for f in os.listdir(OUT):
        os.remove(os.path.join(OUT, f))
    modules = []
    for name, (dims, sd, ns) in BIG.items():
        w = dims[sd] // ns
        others = [k for k in range(len(dims)) if k != sd]
        nfiles = ns // PER_FILE
        for fidx in range(nfiles):
            text = 'import SkoolVerif.Spec.AluCheck\nopen AluCheck\nnamespace AluProofs\n'
            for k in range(fidx * PER_FILE, (fidx + 1) * PER_FILE):
                args = ' '.join((f'({w * k} + {VARS[i]})' if i == sd else VARS[i]) for i in range(len(dims)))
                inner = nest(dims, others, f'ck{name} {args}')
                text += f'theorem {name}_slice_{k} : allLt {w} (fun {VARS[sd]} => {inner}) = true := by decide +kernel\n'
            text += 'end AluProofs\n'
            open(os.path.join(OUT, f'{name}_{fidx}.lean'), 'w').write(text)
        # assembly
        imps = '\n'.join(f'import SkoolVerif.Proofs.Alu.{name}_{k}' for k in range(nfiles))
        cases = '\n'.join(f'    | {k}, _ => by simpa using {name}_slice_{k}' for k in range(ns))
        vs = ' '.join(VARS[i] for i in range(len(dims)))
        hyps = ' → '.join(f'{VARS[i]} < {dims[i]}' for i in range(len(dims)))
        allargs = ' '.join(VARS[i] for i in range(len(dims)))
        inner_p = nest(dims, others, f'ck{name} {allargs}')
        unpack = ''.join(f'\n  have hp := allLt_spec hp {VARS[i]} h{VARS[i]}' for i in others)
        intros = ' '.join(f'h{VARS[i]}' for i in range(len(dims)))
        text = f'''{imps}
open AluCheck
namespace AluProofs
/-- every entry of `{name}` equals the bit-level spec and is a byte (pair) -/
theorem {name}_ok : ∀ {vs} : Nat, {hyps} → ck{name} {allargs} = true := by
  intro {vs} {intros}
  have hs : ∀ k, k < {ns} → allLt {w} (fun a => (fun {VARS[sd]} => {inner_p}) ({w} * k + a)) = true := fun k hk =>
    match k, hk with
{cases}
    | n + {ns}, h => absurd h (by omega)
  have hp := sliced (p := fun {VARS[sd]} => {inner_p}) hs {VARS[sd]} (by omega){unpack}
  exact hp
end AluProofs
'''
        open(os.path.join(OUT, name + '.lean'), 'w').write(text)
        modules.append(name)
    # small tables: one file
    lines = ['import SkoolVerif.Spec.AluCheck', 'open AluCheck', 'namespace AluProofs']
    for name, dims in SMALL.items():
        vs = ' '.join(VARS[i] for i in range(len(dims)))
        hyps = ' → '.join(f'{VARS[i]} < {dims[i]}' for i in range(len(dims)))
        body = nest(dims, list(range(len(dims))), f'ck{name} {vs}')
        intros = ' '.join(f'h{VARS[i]}' for i in range(len(dims)))
        unpack = ''.join(f'\n  have hp := allLt_spec hp {VARS[i]} h{VARS[i]}' for i in range(len(dims)))
        lines.append(f'theorem {name}_all : {body} = true := by decide +kernel')
        lines.append(f'theorem {name}_ok : ∀ {vs} : Nat, {hyps} → ck{name} {vs} = true := by\n  intro {vs} {intros}\n  have hp := {name}_all{unpack}\n  exact hp')
    lines.append('end AluProofs')
    open(os.path.join(OUT, 'Small.lean'), 'w').write('\n'.join(lines) + '\n')
    modules.append('Small')
    open(os.path.join(OUT, 'All.lean'), 'w').write('\n'.join(f'import SkoolVerif.Proofs.Alu.{m}' for m in modules) + '\n')


if __name__ == '__main__':
    main()
