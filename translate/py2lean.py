"""Python-AST -> Lean 4 translator for the simulator sources of skoolkit.

Accepts exactly the AST subset used by simtables.py, the handler closures and dispatch lists of
simulator.py / cmiosimulator.py, and fails loudly (`Unsupported`) on anything else: an unknown
construct is a broken tie between model and source, never silently skipped.

Mapping (trusted, validated on every run by executing the generated definitions against the real
simulators):
  int              -> Int
  a // k, a % k    -> a / k, a % k           (k a positive literal, or the frame duration)
  a & b, a | b ... -> PyInt.land a b ...     (two's complement on unbounded Int)
  bool in arithmetic -> PyInt.p2i prop
  registers[k]     -> field (k literal 24..29) or rget regs k
  memory[a]        -> mget memv a ; memory[a] = v -> memv := mset memv a v
  closures         -> `Id.run do` blocks with `let mut`, statement order preserved
"""
import ast
import json
import os

SPECIAL = {24: 'rPC', 25: 'rT', 26: 'rIFF', 27: 'rIM', 28: 'rHALT', 29: 'rMEMPTR'}
FIELD = {'rPC': 'pc', 'rT': 't', 'rIFF': 'iff', 'rIM': 'im', 'rHALT': 'halt', 'rMEMPTR': 'memptr'}
RESERVED = {'end', 'repeat', 'at', 'from', 'in', 'do', 'then', 'else', 'if', 'open', 'local', 'fun', 'show',
            'have', 'let', 'match', 'with', 'by', 'where', 'set', 'prefix', 'ins', 'outs', 'regs', 'memv',
            'cfg', 's', 'inLog', 'instance', 'class', 'structure', 'def', 'theorem', 'mut', 'return', 'for',
            'unless', 'try', 'catch', 'finally', 'macro', 'syntax', 'notation', 'infix', 'infixl', 'infixr',
            'postfix', 'section', 'namespace', 'variable', 'universe', 'export', 'import', 'private',
            'protected', 'mutual', 'deriving', 'extends', 'abbrev', 'example', 'axiom', 'opaque', 'type', 'Type'}
REG_CONSTS = {'A': 0, 'F': 1, 'B': 2, 'C': 3, 'D': 4, 'E': 5, 'H': 6, 'L': 7, 'IXh': 8, 'IXl': 9, 'IYh': 10,
              'IYl': 11, 'SP': 12, 'SP2': 13, 'I': 14, 'R': 15, 'xA': 16, 'xF': 17, 'xB': 18, 'xC': 19, 'xD': 20,
              'xE': 21, 'xH': 22, 'xL': 23}


class Unsupported(Exception):
    def __init__(self, msg, node=None):
        where = f' (line {node.lineno})' if node is not None and hasattr(node, 'lineno') else ''
        super().__init__(msg + where)


def lname(n):
    return n + '_' if n in RESERVED else n


def lit(n):
    return f'({n})' if n < 0 else str(n)


# ----------------------------------------------------------------------------
# expressions
# ----------------------------------------------------------------------------

class Env:
    """Translation context for expressions."""

    def __init__(self, tables, names=None, table_params=None, regs=False, cfg_names=None):
        self.tables = tables            # name -> meta {'dims': [...], 'leaf': 'int'|'pair'}
        self.names = dict(names or {})  # python name -> lean expr (Int)
        self.table_params = dict(table_params or {})  # python param name -> enum kind e.g. 'P2'
        self.regs = regs                # registers/memory subscripts allowed
        self.cfg_names = dict(cfg_names or {})  # python name -> lean expr for self.* aliases


def tr(node, env):
    """-> (kind, text) with kind in {'int', 'bool', 'pair'}"""
    if isinstance(node, ast.Constant):
        if isinstance(node.value, bool):
            return 'bool', 'True' if node.value else 'False'
        if isinstance(node.value, int):
            return 'int', lit(node.value)
        raise Unsupported(f'constant {node.value!r}', node)
    if isinstance(node, ast.Name):
        if node.id in env.names:
            return 'int', env.names[node.id]
        if node.id in env.cfg_names:
            return 'int', env.cfg_names[node.id]
        raise Unsupported(f'unknown name {node.id}', node)
    if isinstance(node, ast.Attribute):
        if isinstance(node.value, ast.Name) and node.value.id == 'self' and node.attr in ('frame_duration', 'int_active', 't0', 't1'):
            return 'int', f'cfg.{node.attr}'
        if (isinstance(node.value, ast.Attribute) and isinstance(node.value.value, ast.Name) and node.value.value.id == 'self'
                and node.value.attr == 'memory' and node.attr == 'o7ffd'):
            return 'int', '(MemLike.o7ffd memv)'
        if isinstance(node.value, ast.Name) and node.value.id == 'self' and node.attr.endswith('_tracer'):
            return 'bool', f'(cfg.{node.attr} = true)'
        raise Unsupported(f'attribute {ast.dump(node)}', node)
    if isinstance(node, ast.UnaryOp):
        if isinstance(node.op, ast.USub):
            return 'int', f'(- {as_int(node.operand, env)})'
        if isinstance(node.op, ast.Not):
            return 'bool', f'(¬ {as_bool(node.operand, env)})'
        raise Unsupported('unary op', node)
    if isinstance(node, ast.BinOp):
        op = node.op
        if isinstance(op, ast.Mult) and isinstance(node.left, ast.Tuple):
            raise Unsupported('tuple repetition in expression', node)
        a = as_int(node.left, env)
        if isinstance(op, (ast.FloorDiv, ast.Mod)):
            r = node.right
            ok = isinstance(r, ast.Constant) and isinstance(r.value, int) and r.value > 0
            if not ok:
                k, t = tr(r, env)
                ok = k == 'int' and t in ('cfg.frame_duration',)
            if not ok:
                raise Unsupported('// or % by something other than a positive literal or the frame duration', node)
            b = as_int(r, env)
            return 'int', f'({a} {"/" if isinstance(op, ast.FloorDiv) else "%"} {b})'
        b = as_int(node.right, env)
        if isinstance(op, ast.Add):
            return 'int', f'({a} + {b})'
        if isinstance(op, ast.Sub):
            return 'int', f'({a} - {b})'
        if isinstance(op, ast.Mult):
            return 'int', f'({a} * {b})'
        if isinstance(op, ast.BitAnd):
            return 'int', f'(PyInt.land {a} {b})'
        if isinstance(op, ast.BitOr):
            return 'int', f'(PyInt.lor {a} {b})'
        if isinstance(op, ast.BitXor):
            return 'int', f'(PyInt.xor {a} {b})'
        if isinstance(op, ast.LShift):
            return 'int', f'(PyInt.shl {a} {b})'
        if isinstance(op, ast.RShift):
            return 'int', f'(PyInt.shr {a} {b})'
        raise Unsupported(f'binary op {type(op).__name__}', node)
    if isinstance(node, ast.Compare):
        parts = []
        left = node.left
        for op, right in zip(node.ops, node.comparators):
            if isinstance(op, (ast.In, ast.NotIn)):
                if not isinstance(right, ast.Tuple):
                    raise Unsupported('in <non-tuple>', node)
                x = as_int(left, env)
                alts = ' ∨ '.join(f'{x} = {as_int(e, env)}' for e in right.elts)
                parts.append(f'({alts})' if isinstance(op, ast.In) else f'(¬ ({alts}))')
            else:
                sym = {ast.Eq: '=', ast.NotEq: '≠', ast.Lt: '<', ast.LtE: '≤', ast.Gt: '>', ast.GtE: '≥'}.get(type(op))
                if sym is None:
                    raise Unsupported('comparison operator', node)
                parts.append(f'{as_int(left, env)} {sym} {as_int(right, env)}')
            left = right
        return 'bool', '(' + ' ∧ '.join(parts) + ')'
    if isinstance(node, ast.BoolOp):
        kinds = [tr(v, env) for v in node.values]
        if all(k == 'bool' for k, _ in kinds):
            sym = ' ∧ ' if isinstance(node.op, ast.And) else ' ∨ '
            return 'bool', '(' + sym.join(t for _, t in kinds) + ')'
        # Python value semantics in integer context: `x and y` / `x or y`
        res = None
        for k, t in reversed(kinds):
            if res is None:
                res = t if k == 'int' else f'(PyInt.p2i {t})'
                continue
            if isinstance(node.op, ast.And):
                res = f'(if {t} then {res} else 0)' if k == 'bool' else f'(if {t} ≠ 0 then {res} else {t})'
            else:
                res = f'(if {t} then 1 else {res})' if k == 'bool' else f'(if {t} ≠ 0 then {t} else {res})'
        return 'int', res
    if isinstance(node, ast.IfExp):
        return 'int', f'(if {as_bool(node.test, env)} then {as_int(node.body, env)} else {as_int(node.orelse, env)})'
    if isinstance(node, ast.Subscript):
        return tr_subscript(node, env)
    if isinstance(node, ast.Call):
        f = node.func
        # bin(r).count('1')
        if (isinstance(f, ast.Attribute) and f.attr == 'count' and isinstance(f.value, ast.Call)
                and isinstance(f.value.func, ast.Name) and f.value.func.id == 'bin'
                and len(node.args) == 1 and isinstance(node.args[0], ast.Constant) and node.args[0].value == '1'):
            return 'int', f'(PyInt.popcount {as_int(f.value.args[0], env)})'
        hook = getattr(env, 'call_hook', None)
        if hook is not None:
            return 'int', hook(node)
        raise Unsupported('call in expression: ' + ast.unparse(node), node)
    raise Unsupported(f'expression {type(node).__name__}: {ast.unparse(node)}', node)


def as_int(node, env):
    k, t = tr(node, env)
    if k == 'int':
        return t
    if k == 'bool':
        return f'(PyInt.p2i {t})'
    raise Unsupported('pair used as int', node)


def as_bool(node, env):
    k, t = tr(node, env)
    if k == 'bool':
        return t
    if k == 'int':
        return f'({t} ≠ 0)'
    raise Unsupported('pair used as bool', node)


def subscript_chain(node):
    idx = []
    while isinstance(node, ast.Subscript):
        idx.append(node.slice)
        node = node.value
    return node, list(reversed(idx))


def tr_subscript(node, env):
    base, idx = subscript_chain(node)
    if not isinstance(base, ast.Name):
        raise Unsupported('subscript base ' + ast.unparse(base), node)
    name = base.id
    if env.regs and name == 'registers':
        if len(idx) != 1 or isinstance(idx[0], ast.Slice):
            raise Unsupported('registers slice read', node)
        i = idx[0]
        if isinstance(i, ast.Constant):
            if i.value in SPECIAL:
                return 'int', SPECIAL[i.value]
            if not 0 <= i.value < 24:
                raise Unsupported('register index out of range', node)
            return 'int', f'(rget regs {i.value})'
        return 'int', f'(rget regs {as_int(i, env)})'
    if env.regs and name == 'memory':
        if len(idx) != 1 or isinstance(idx[0], ast.Slice):
            raise Unsupported('memory slice read', node)
        return 'int', f'(mget memv {as_int(idx[0], env)})'
    if name in env.table_params:
        kind = env.table_params[name]
        n = int(kind[1:])
        args = ' '.join(as_int(i, env) for i in idx[:n])
        if len(idx) == n:
            return ('pair' if kind[0] == 'P' else 'int'), f'(Tbl{kind}.get {lname(name)} {args})'
        raise Unsupported('table parameter subscripted with wrong arity', node)
    if name in env.tables:
        meta = env.tables[name]
        n = len(meta['dims'])
        if len(idx) < n:
            raise Unsupported(f'table {name} partially indexed inside an expression', node)
        args = ' '.join(as_int(i, env) for i in idx[:n])
        call = f'(Tbl.{name} {args})'
        if len(idx) == n:
            return ('pair' if meta['leaf'] == 'pair' else 'int'), call
        if len(idx) == n + 1 and meta['leaf'] == 'pair' and isinstance(idx[n], ast.Constant) and idx[n].value in (0, 1):
            return 'int', f'{call}.{idx[n].value + 1}'
        raise Unsupported(f'table {name} over-indexed', node)
    raise Unsupported(f'subscript of {name}', node)


# ----------------------------------------------------------------------------
# tables (simtables.py and the module-level tuples of simulator.py)
# ----------------------------------------------------------------------------

def iter_binding(it, idx):
    """`for x in <it>`: -> (lean expr for x given index var, size)."""
    if isinstance(it, ast.Call) and isinstance(it.func, ast.Name) and it.func.id == 'range':
        return 'range', it.args
    if isinstance(it, ast.Tuple) and all(isinstance(e, ast.Constant) and isinstance(e.value, int) for e in it.elts):
        return 'consts', [e.value for e in it.elts]
    raise Unsupported('comprehension iterable ' + ast.unparse(it), it)


def table_body(node, depth, env, dims):
    """Translate a (possibly nested) table expression; returns (leafkind, lean text)."""
    if (isinstance(node, ast.Call) and isinstance(node.func, ast.Name) and node.func.id == 'tuple'
            and len(node.args) == 1 and isinstance(node.args[0], ast.GeneratorExp)):
        g = node.args[0]
        if len(g.generators) != 1 or g.generators[0].ifs or not isinstance(g.generators[0].target, ast.Name):
            raise Unsupported('generator shape', node)
        comp = g.generators[0]
        kind, data = iter_binding(comp.iter, depth)
        iv = f'i{depth}'
        sub = Env(env.tables, env.names)
        if kind == 'range':
            args = data
            if len(args) == 1:
                lo, hi, step = None, args[0], 1
            elif len(args) == 2:
                lo, hi, step = args[0], args[1], 1
            else:
                lo, hi = args[0], args[1]
                k, t = tr(args[2], env)
                st = ast.literal_eval(ast.unparse(args[2]))
                step = st
            if lo is None:
                bind = iv
                size = ast.literal_eval(ast.unparse(hi))
            else:
                lo_t = as_int(lo, env)
                bind = f'({lo_t} + {iv})' if step == 1 else f'({lo_t} + {lit(step)} * {iv})'
                # size: (hi - lo) / step must be a constant; evaluate with free names = 0
                names = {n.id: 0 for n in ast.walk(ast.Module([ast.Expr(lo), ast.Expr(hi)], [])) if isinstance(n, ast.Name)}
                lo_v = eval(compile(ast.Expression(lo), '<t>', 'eval'), {}, names)
                hi_v = eval(compile(ast.Expression(hi), '<t>', 'eval'), {}, names)
                size = len(range(lo_v, hi_v, step))
        else:
            consts = data
            if consts != list(range(len(consts))):
                raise Unsupported('comprehension over a non-identity constant tuple', node)
            bind = iv
            size = len(consts)
        dims.append(size)
        sub.names[comp.target.id] = lname(comp.target.id) + '_v'
        leaf, body = table_body(g.elt, depth + 1, sub, dims)
        return leaf, f'let {lname(comp.target.id)}_v : Int := {bind}\n  {body}'
    if isinstance(node, ast.Tuple) and len(node.elts) == 2 and depth > 0 and not any(isinstance(e, (ast.Tuple, ast.Call)) and is_table_level(e) for e in node.elts):
        a = as_int(node.elts[0], env)
        b = as_int(node.elts[1], env)
        return 'pair', f'({a}, {b})'
    return 'int', as_int(node, env)


def is_table_level(e):
    return (isinstance(e, ast.Call) and isinstance(e.func, ast.Name) and e.func.id == 'tuple') or \
        (isinstance(e, ast.BinOp) and isinstance(e.op, ast.Mult) and isinstance(e.left, ast.Tuple))


def translate_table(name, node, tables):
    """-> (meta, lean def text)"""
    env = Env(tables)
    # alias  NAME = OTHER[k]
    if isinstance(node, ast.Subscript):
        base, idx = subscript_chain(node)
        if isinstance(base, ast.Name) and base.id in tables and all(isinstance(i, ast.Constant) for i in idx):
            m = tables[base.id]
            rest = m['dims'][len(idx):]
            params = ' '.join(f'i{k}' for k in range(len(rest)))
            fixed = ' '.join(lit(i.value) for i in idx)
            ty = 'Int × Int' if m['leaf'] == 'pair' else 'Int'
            meta = {'dims': rest, 'leaf': m['leaf']}
            return meta, f'def {name} ({params} : Int) : {ty} := {base.id} {fixed} {params}'
        raise Unsupported('table alias ' + ast.unparse(node), node)
    # top-level tuple of sub-tables
    if isinstance(node, ast.Tuple) and all(is_table_level(e) for e in node.elts):
        alts = []
        inner_dims = None
        leaf = None
        for e in node.elts:
            if isinstance(e, ast.BinOp):
                # ((a, b),) * N
                t = e.left
                if not (len(t.elts) == 1 and isinstance(e.right, ast.Constant)):
                    raise Unsupported('tuple repetition shape', e)
                el = t.elts[0]
                if isinstance(el, ast.Tuple) and len(el.elts) == 2:
                    lf, body = 'pair', f'({as_int(el.elts[0], env)}, {as_int(el.elts[1], env)})'
                else:
                    lf, body = 'int', as_int(el, env)
                d = [e.right.value]
            else:
                d = []
                lf, body = table_body(e, 1, env, d)
            if inner_dims is not None and (d != inner_dims or lf != leaf):
                raise Unsupported('ragged top-level tuple', node)
            inner_dims, leaf = d, lf
            alts.append(body)
        dims = [len(node.elts)] + inner_dims
        params = ' '.join(f'i{k}' for k in range(len(dims)))
        ty = 'Int × Int' if leaf == 'pair' else 'Int'
        body = ''
        for k, a in enumerate(alts[:-1]):
            body += f'if i0 = {k} then\n  ({a})\n  else '
        body += f'\n  ({alts[-1]})'
        return {'dims': dims, 'leaf': leaf}, f'def {name} ({params} : Int) : {ty} :=\n  {body}'
    dims = []
    leaf, body = table_body(node, 0, env, dims)
    if not dims:
        raise Unsupported('not a table: ' + name, node)
    params = ' '.join(f'i{k}' for k in range(len(dims)))
    ty = 'Int × Int' if leaf == 'pair' else 'Int'
    return {'dims': dims, 'leaf': leaf}, f'def {name} ({params} : Int) : {ty} :=\n  {body}'


def collect_tables(repo):
    """All module-level tables of simtables.py plus JR_OFFSETS/OFFSETS/R1/R2 of simulator.py."""
    tables = {}
    defs = []
    order = []
    for fn, wanted in (('skoolkit/simulator.py', {'JR_OFFSETS', 'OFFSETS', 'R1', 'R2'}), ('skoolkit/simtables.py', None)):
        with open(os.path.join(repo, fn)) as f:
            mod = ast.parse(f.read(), fn)
        for st in mod.body:
            if isinstance(st, ast.Assign) and len(st.targets) == 1 and isinstance(st.targets[0], ast.Name):
                name = st.targets[0].id
                if wanted is not None and name not in wanted:
                    continue
                try:
                    meta, text = translate_table(name, st.value, tables)
                except Unsupported as e:
                    raise Unsupported(f'{fn}: table {name}: {e}')
                tables[name] = meta
                defs.append(text)
                order.append(name)
            elif wanted is None and not isinstance(st, (ast.Import, ast.ImportFrom, ast.Expr)):
                raise Unsupported(f'{fn}: unexpected module-level statement', st)
    return tables, defs, order


TABLE_DIMS_ROLE = {'af': [256, 256], 'afc': [2, 256, 256], 'f': [256], 'fc': [2, 256], 'bit': [2, 8, 256],
                   'cf': [256, 256], 'neg': [256], 'sz53p': [256], 'parity': [256], 'r_inc': [256]}


def dispatch_table_usage(repo):
    """Names of the tables passed as arguments at the dispatch sites of create_opcodes."""
    with open(os.path.join(repo, 'skoolkit/simulator.py')) as f:
        mod = ast.parse(f.read())
    cls = find_class(mod, 'Simulator')
    create = [m for m in cls.body if isinstance(m, ast.FunctionDef) and m.name == 'create_opcodes'][0]
    used = set()
    for n in ast.walk(create):
        if isinstance(n, ast.Call):
            for a in n.args:
                if isinstance(a, ast.Name):
                    used.add(a.id)
    return used


def gen_simtables(repo):
    """-> (SimTables.lean text: the table functions only, SimTblEnums.lean text, meta)"""
    tables, defs, order = collect_tables(repo)
    out = ['-- GENERATED by translate/py2lean.py from skoolkit/simtables.py and skoolkit/simulator.py. Do not edit.',
           'import SkoolVerif.Prelude.PyInt', 'set_option linter.unusedVariables false', 'namespace Tbl', '']
    for d in defs:
        out.append(d)
        out.append('')
    out.append('end Tbl')
    out.append('')
    used = dispatch_table_usage(repo)
    kinds = {}
    for n in order:
        if n not in used:
            continue
        m = tables[n]
        k = ('P' if m['leaf'] == 'pair' else 'I') + str(len(m['dims']))
        kinds.setdefault(k, []).append(n)
    en = ['-- GENERATED by translate/py2lean.py: the tables that closures receive as parameters, by shape. Do not edit.',
          'import SkoolVerif.Gen.SimTables', '']
    for k in sorted(kinds):
        names = kinds[k]
        n = int(k[1:])
        ty = 'Int × Int' if k[0] == 'P' else 'Int'
        en.append(f'/-- Tables of shape {k} (indices: {n}; leaf: {ty}) passed to closures at the dispatch sites. -/')
        en.append(f'inductive Tbl{k} where')
        for nm in names:
            en.append(f'  | {nm}')
        en.append('  deriving DecidableEq, Repr, Inhabited')
        args = ' '.join(f'i{j}' for j in range(n))
        en.append(f'def Tbl{k}.get : Tbl{k} → ' + 'Int → ' * n + ty)
        for nm in names:
            en.append(f'  | .{nm}, {", ".join(f"i{j}" for j in range(n))} => Tbl.{nm} {args}')
        en.append(f'/-- index ranges of the Python tuple -/')
        en.append(f'def Tbl{k}.dims : Tbl{k} → List Int')
        for nm in names:
            en.append(f'  | .{nm} => {tables[nm]["dims"]}')
        en.append(f'def Tbl{k}.all : List Tbl{k} := [' + ', '.join('.' + nm for nm in names) + ']')
        en.append(f'def Tbl{k}.name : Tbl{k} → String')
        for nm in names:
            en.append(f'  | .{nm} => "{nm}"')
        en.append('')
    meta = {'tables': tables, 'order': order, 'kinds': kinds}
    return '\n'.join(out) + '\n', '\n'.join(en) + '\n', meta


# ----------------------------------------------------------------------------
# handler closures
# ----------------------------------------------------------------------------

class Handler:
    def __init__(self, name, params, defaults, lean, kinds):
        self.name = name
        self.params = params        # python param names in order (excluding self/registers/memory)
        self.defaults = defaults    # name -> default int
        self.lean = lean
        self.kinds = kinds          # param name -> 'int' | table kind


class BodyTr:
    def __init__(self, tables, params, cfg_names, cmio):
        self.tables = tables
        self.params = params
        self.cmio = cmio
        self.locals = []
        self.table_params = {}
        self.cfg_names = cfg_names
        self.tmp = 0
        self.lines = []

    def fresh(self, base='tmp'):
        self.tmp += 1
        return f'{base}{self.tmp}'

    def env(self):
        names = {p: lname(p) for p in self.params if p not in self.table_params}
        names.update({l: lname(l) for l in self.locals if l not in getattr(self, 'list_locals', ())})
        env = Env(self.tables, names, self.table_params, regs=True, cfg_names=self.cfg_names)
        env.call_hook = lambda c: self.call_value(c, env)
        return env

    def emit(self, ind, text):
        self.lines.append('  ' * ind + text)

    # -- discovery -------------------------------------------------------
    def discover(self, func):
        assigned = []
        for n in ast.walk(func):
            if isinstance(n, (ast.Assign, ast.AugAssign)):
                targets = n.targets if isinstance(n, ast.Assign) else [n.target]
                for t in targets:
                    for e in (t.elts if isinstance(t, ast.Tuple) else [t]):
                        if isinstance(e, ast.Name) and e.id not in assigned:
                            assigned.append(e.id)
        self.locals = [a for a in assigned if a not in self.params]
        self.list_locals = set()
        for n in ast.walk(func):
            if isinstance(n, ast.Assign) and isinstance(n.value, ast.Call) and isinstance(n.value.func, ast.Name) \
                    and n.value.func.id == 'io_contention' and isinstance(n.targets[0], ast.Name):
                self.list_locals.add(n.targets[0].id)
        for n in ast.walk(func):
            if isinstance(n, ast.Subscript):
                base, idx = subscript_chain(n)
                if isinstance(base, ast.Name) and base.id in self.params and base.id not in ('registers', 'memory'):
                    depth = len(idx)
                    prev = self.table_params.get(base.id)
                    if prev is None or depth > prev[1]:
                        self.table_params[base.id] = ['?', depth]
        # leaf kinds: pair if the full subscript is destructured or assigned to registers[:2]
        for n in ast.walk(func):
            if isinstance(n, ast.Assign):
                v = n.value
                if isinstance(v, ast.Subscript):
                    base, idx = subscript_chain(v)
                    if isinstance(base, ast.Name) and base.id in self.table_params and len(idx) == self.table_params[base.id][1]:
                        t = n.targets[0]
                        pair = isinstance(t, ast.Tuple) or (isinstance(t, ast.Subscript) and isinstance(t.slice, ast.Slice))
                        self.table_params[base.id][0] = 'P' if pair else 'I'
        for k, v in self.table_params.items():
            if v[0] == '?':
                v[0] = 'I'
        self.table_params = {k: f'{v[0]}{v[1]}' for k, v in self.table_params.items()}

    # -- statements ------------------------------------------------------
    def assign_target(self, t, value_text, ind):
        """Assign an Int-valued lean expression text to a Python target."""
        if isinstance(t, ast.Name):
            self.emit(ind, f'{lname(t.id)} := {value_text}')
            return
        if isinstance(t, ast.Subscript) and isinstance(t.value, ast.Name):
            if t.value.id == 'registers':
                i = t.slice
                if isinstance(i, ast.Slice):
                    raise Unsupported('slice target', t)
                if isinstance(i, ast.Constant):
                    if i.value in SPECIAL:
                        self.emit(ind, f'{SPECIAL[i.value]} := {value_text}')
                        return
                    if not 0 <= i.value < 24:
                        raise Unsupported('register index', t)
                    self.emit(ind, f'regs := rset regs {i.value} {value_text}')
                    return
                self.emit(ind, f'regs := rset regs {as_int(i, self.env())} {value_text}')
                return
            if t.value.id == 'memory':
                self.emit(ind, f'memv := mset memv {as_int(t.slice, self.env())} {value_text}')
                return
        raise Unsupported('assignment target ' + ast.unparse(t), t)

    def slice_range(self, t):
        if (isinstance(t, ast.Subscript) and isinstance(t.value, ast.Name) and t.value.id == 'registers'
                and isinstance(t.slice, ast.Slice) and t.slice.step is None):
            lo = t.slice.lower.value if t.slice.lower is not None else 0
            hi = t.slice.upper.value
            return lo, hi
        return None

    def stmt(self, st, ind):
        env = self.env()
        if isinstance(st, ast.Assign):
            if len(st.targets) != 1:
                # a = b = <int expr>: evaluate once, assign left to right
                if any(isinstance(t, ast.Tuple) or self.slice_range(t) for t in st.targets):
                    raise Unsupported('chained assignment', st)
                tmp = self.fresh('cv')
                self.emit(ind, f'let {tmp} := {as_int(st.value, env)}')
                for t in st.targets:
                    self.assign_target(t, tmp, ind)
                return
            t, v = st.targets[0], st.value
            # port reads: x = self.<...>_tracer(registers, port)
            if isinstance(v, ast.Call) and isinstance(v.func, ast.Attribute) and isinstance(v.func.value, ast.Name) \
                    and v.func.value.id == 'self' and v.func.attr in ('in_a_n_tracer', 'in_r_c_tracer', 'ini_tracer'):
                if len(v.args) != 2 or not (isinstance(v.args[0], ast.Name) and v.args[0].id == 'registers'):
                    raise Unsupported('tracer call shape', st)
                port = as_int(v.args[1], env)
                tmp = self.fresh('rd')
                self.emit(ind, f'inLog := {port} :: inLog')
                self.emit(ind, f'let {tmp} := readPort ins')
                self.emit(ind, f'ins := {tmp}.2')
                self.assign_target(t, f'{tmp}.1', ind)
                return
            # delay = contend(tm, (...)) handled as expression call below
            if isinstance(v, ast.Call):
                text = self.call_value(v, env)
                self.assign_target(t, text, ind)
                return
            # registers[:2] = <pair>
            rng = self.slice_range(t)
            if rng is not None:
                lo, hi = rng
                if hi - lo == 2:
                    k, text = tr(v, env)
                    if k != 'pair':
                        raise Unsupported('registers[:2] = non-pair', st)
                    tmp = self.fresh('pr')
                    self.emit(ind, f'let {tmp} := {text}')
                    self.emit(ind, f'regs := rset regs {lo} {tmp}.1')
                    self.emit(ind, f'regs := rset regs {lo + 1} {tmp}.2')
                    return
                raise Unsupported('slice assignment', st)
            if isinstance(t, ast.Tuple):
                # tuple target
                if isinstance(v, ast.Tuple):
                    if len(v.elts) != len(t.elts):
                        raise Unsupported('tuple arity', st)
                    # slices on both sides (EXX): expand element-wise
                    pairs = []
                    for te, ve in zip(t.elts, v.elts):
                        tr_ = self.slice_range(te)
                        vr_ = self.slice_range(ve)
                        if tr_ and vr_:
                            if tr_[1] - tr_[0] != vr_[1] - vr_[0]:
                                raise Unsupported('slice length mismatch', st)
                            for k in range(tr_[1] - tr_[0]):
                                pairs.append((('reg', tr_[0] + k), f'(rget regs {vr_[0] + k})'))
                        elif tr_ or vr_:
                            raise Unsupported('mixed slice/non-slice tuple assignment', st)
                        else:
                            pairs.append((('tgt', te), as_int(ve, env)))
                    tmps = []
                    for _, text in pairs:
                        tmp = self.fresh('tv')
                        self.emit(ind, f'let {tmp} := {text}')
                        tmps.append(tmp)
                    for ((kind, tgt), _), tmp in zip(pairs, tmps):
                        if kind == 'reg':
                            self.emit(ind, f'regs := rset regs {tgt} {tmp}')
                        else:
                            self.assign_target(tgt, tmp, ind)
                    return
                k, text = tr(v, env)
                if k != 'pair' or len(t.elts) != 2:
                    raise Unsupported('tuple target from non-pair', st)
                tmp = self.fresh('pr')
                self.emit(ind, f'let {tmp} := {text}')
                self.assign_target(t.elts[0], f'{tmp}.1', ind)
                self.assign_target(t.elts[1], f'{tmp}.2', ind)
                return
            self.assign_target(t, as_int(v, env), ind)
            return
        if isinstance(st, ast.AugAssign):
            op = st.op
            cur = ast.BinOp(left=ast_load(st.target), op=op, right=st.value)
            ast.copy_location(cur, st)
            ast.fix_missing_locations(cur)
            self.assign_target(st.target, as_int(cur, env), ind)
            return
        if isinstance(st, ast.If):
            self.emit(ind, f'if {as_bool(st.test, env)} then')
            for s in st.body:
                self.stmt(s, ind + 1)
            if st.orelse:
                self.emit(ind, 'else')
                for s in st.orelse:
                    self.stmt(s, ind + 1)
            return
        if isinstance(st, ast.Expr) and isinstance(st.value, ast.Call):
            c = st.value
            if isinstance(c.func, ast.Attribute) and isinstance(c.func.value, ast.Name) and c.func.value.id == 'self' \
                    and c.func.attr == 'out_tracer':
                if len(c.args) != 4:
                    raise Unsupported('out_tracer arity', st)
                port, val = as_int(c.args[1], env), as_int(c.args[2], env)
                p, v = self.fresh('port'), self.fresh('val')
                self.emit(ind, f'let {p} := {port}')
                self.emit(ind, f'let {v} := {val}')
                self.emit(ind, f'outs := ({p}, {v}) :: outs')
                self.emit(ind, f'memv := MemLike.portOut memv {p} {v}')
                return
            raise Unsupported('call statement ' + ast.unparse(c), st)
        if isinstance(st, ast.Pass):
            self.emit(ind, 'pure ()')
            return
        raise Unsupported(f'statement {type(st).__name__}: {ast.unparse(st)[:80]}', st)

    def call_value(self, c, env):
        """contend(tm, ((a, n), ...)) and io_contention(port) as Int-valued / list-valued expressions."""
        if isinstance(c.func, ast.Name) and c.func.id == 'contend' and self.cmio:
            if len(c.args) != 2:
                raise Unsupported('contend arity', c)
            return f'(contend cfg memv {as_int(c.args[0], env)} {self.timings(c.args[1], env)})'
        if isinstance(c.func, ast.Name) and c.func.id == 'io_contention' and self.cmio:
            if len(c.args) != 1:
                raise Unsupported('io_contention arity', c)
            return f'(io_contention cfg memv {as_int(c.args[0], env)})'
        raise Unsupported('call ' + ast.unparse(c)[:80], c)

    def timings(self, node, env):
        if isinstance(node, ast.Tuple):
            parts = []
            for e in node.elts:
                if isinstance(e, ast.Starred):
                    parts.append(('list', self.timings(e.value, env)))
                elif isinstance(e, ast.Tuple) and len(e.elts) == 2:
                    parts.append(('item', f'({as_int(e.elts[0], env)}, {as_int(e.elts[1], env)})'))
                else:
                    raise Unsupported('timing tuple element', e)
            # group consecutive items
            groups = []
            for kind, text in parts:
                if kind == 'item':
                    if groups and groups[-1][0] == 'items':
                        groups[-1][1].append(text)
                    else:
                        groups.append(('items', [text]))
                else:
                    groups.append(('list', text))
            texts = [('[' + ', '.join(g[1]) + ']') if g[0] == 'items' else g[1] for g in groups]
            return '(' + ' ++ '.join(texts) + ')' if texts else '([] : List (Int × Int))'
        if isinstance(node, ast.Call) and isinstance(node.func, ast.Name) and node.func.id == 'io_contention':
            return f'(io_contention cfg memv {as_int(node.args[0], env)})'
        if isinstance(node, ast.Name) and node.id in self.list_locals:
            return lname(node.id)
        raise Unsupported('timings expression ' + ast.unparse(node)[:80], node)


def ast_load(t):
    import copy
    n = copy.deepcopy(t)
    for x in ast.walk(n):
        if hasattr(x, 'ctx'):
            x.ctx = ast.Load()
    return n


def translate_handler(meth, tables, cmio=False):
    args = [a.arg for a in meth.args.args]
    if args[0] != 'self':
        raise Unsupported('method without self', meth)
    params = [a for a in args[1:] if a not in ('registers', 'memory')]
    ndef = len(meth.args.defaults)
    defaults = {}
    for a, d in zip(args[len(args) - ndef:], meth.args.defaults):
        defaults[a] = ast.literal_eval(ast.unparse(d))
    body = list(meth.body)
    cfg_names = {}
    # cmio prelude:  t0, t1, frame_duration, contend = self.t0, ...
    while body and isinstance(body[0], ast.Assign) and not isinstance(body[0].value, ast.Call):
        st = body.pop(0)
        t, v = st.targets[0], st.value
        ts = t.elts if isinstance(t, ast.Tuple) else [t]
        vs = v.elts if isinstance(v, ast.Tuple) else [v]
        for a, b in zip(ts, vs):
            if not (isinstance(b, ast.Attribute) and isinstance(b.value, ast.Name) and b.value.id == 'self'):
                raise Unsupported('closure prelude', st)
            if b.attr in ('t0', 't1', 'frame_duration', 'int_active'):
                cfg_names[a.id] = f'cfg.{b.attr}'
            elif b.attr in ('contend', 'io_contention'):
                if a.id != b.attr:
                    raise Unsupported('renamed contend', st)
            else:
                raise Unsupported('closure prelude attribute ' + b.attr, st)
    if not (len(body) == 2 and isinstance(body[0], ast.FunctionDef) and isinstance(body[1], ast.Return)
            and isinstance(body[1].value, ast.Name) and body[1].value.id == body[0].name):
        raise Unsupported('not a closure factory', meth)
    func = body[0]
    if func.args.args:
        raise Unsupported('closure with parameters', func)
    bt = BodyTr(tables, params, cfg_names, cmio)
    bt.discover(func)
    for s in func.body:
        bt.stmt(s, 1)
    kinds = {p: bt.table_params.get(p, 'int') for p in params}
    sig = ' '.join(f'({lname(p)} : {"Int" if kinds[p] == "int" else "Tbl" + kinds[p]})' for p in params)
    out = [f'@[sim_handler] def {meth.name} {{μ : Type}} [MemLike μ] (cfg : Cfg) {sig} (s : St μ) : St μ := Id.run do'.replace('  ', ' ')]
    out.append('  let mut regs := s.reg')
    out.append('  let mut memv := s.mem')
    for v, f in FIELD.items():
        out.append(f'  let mut {v} := s.{f}')
    out.append('  let mut ins := s.ins')
    out.append('  let mut outs := s.outs')
    out.append('  let mut inLog := s.inLog')
    for l in bt.locals:
        if l in bt.list_locals:
            out.append(f'  let mut {lname(l)} : List (Int × Int) := []')
        else:
            out.append(f'  let mut {lname(l)} : Int := 0')
    out.extend(bt.lines)
    out.append('  return { reg := regs, mem := memv, pc := rPC, t := rT, iff := rIFF, im := rIM, halt := rHALT, '
               'memptr := rMEMPTR, ins := ins, outs := outs, inLog := inLog }')
    return Handler(meth.name, params, defaults, '\n'.join(out), kinds)


BYTE_REG = '0 ≤ {v} ∧ {v} ≤ 23 ∧ {v} ≠ 12 ∧ {v} ≠ 13'
ROLE = {
    'timing': '0 ≤ {v}', 'size': '1 ≤ {v} ∧ {v} ≤ 4',
    'r': BYTE_REG, 'xyh': BYTE_REG, 'xyl': BYTE_REG, 'ah': BYTE_REG, 'al': BYTE_REG, 'r1': BYTE_REG, 'r2': BYTE_REG,
    # register pairs are two byte registers, except in the closures that special-case rl == 12 or only read the
    # pair: there (rh, rl) may also be (SP2, SP) = (13, 12); checked jointly below
    'rh': BYTE_REG, 'rl': BYTE_REG,
    'reg': BYTE_REG, 'out_c.reg': '-1 ≤ {v} ∧ {v} ≤ 23 ∧ {v} ≠ 12 ∧ {v} ≠ 13',
    'dest': '-1 ≤ {v} ∧ {v} ≤ 23 ∧ {v} ≠ 12 ∧ {v} ≠ 13',
    'b': '0 ≤ {v} ∧ {v} ≤ 7', 'bit': '0 ≤ {v} ∧ {v} ≤ 255', 'c_and': '0 ≤ {v} ∧ {v} ≤ 255', 'c_val': '0 ≤ {v} ∧ {v} ≤ 255',
    'inc': '{v} = 1 ∨ {v} = -1', 'repeat': '0 ≤ {v} ∧ {v} ≤ 1', 'addr': '0 ≤ {v} ∧ {v} ≤ 65535',
    'iff': '0 ≤ {v} ∧ {v} ≤ 1', 'mode': '0 ≤ {v} ∧ {v} ≤ 2',
}

SP_PAIR_OK = ('ld_rr_nn', 'ld_rr_mm', 'ld_mm_rr', 'inc_dec_rr', 'add_rr', 'adc_hl', 'sbc_hl')
for _h in SP_PAIR_OK:
    ROLE[_h + '.rh'] = '0 ≤ {v} ∧ {v} ≤ 23 ∧ {v} ≠ 12'
    ROLE[_h + '.rl'] = '0 ≤ {v} ∧ {v} ≤ 23 ∧ {v} ≠ 13'
# secondary table parameters must be one specific table (their values are combined arithmetically)
TABLE_IS_ROLE = {'sz53p': 'SZ53P', 'parity': 'PARITY', 'bit': 'BIT', 'neg': 'NEG'}

SKIP_METHODS = {'__init__', 'set_tracer', 'run', 'accept_interrupt', 'prefix', 'prefix2', 'create_opcodes',
                'djnz_fast', 'ldir_fast', 'contend_48k', 'contend_128k', 'io_contention_48k', 'io_contention_128k'}


def find_class(mod, name):
    for st in mod.body:
        if isinstance(st, ast.ClassDef) and st.name == name:
            return st
    raise Unsupported('class ' + name + ' not found')


def parse_dispatch(create, handlers, tables):
    """create_opcodes -> {table name: [instr text]}"""
    res = {}
    order = []
    for st in create.body:
        if isinstance(st, ast.ImportFrom):
            continue
        if isinstance(st, ast.Assign) and len(st.targets) == 1:
            t = st.targets[0]
            if isinstance(t, ast.Name) and t.id in ('r', 'm'):
                continue
            if isinstance(t, ast.Attribute) and isinstance(t.value, ast.Name) and t.value.id == 'self' and isinstance(st.value, ast.List):
                entries = []
                for e in st.value.elts:
                    entries.append(instr_of_call(e, handlers, tables))
                if len(entries) != 256:
                    raise Unsupported(f'{t.attr} has {len(entries)} entries')
                res[t.attr] = entries
                order.append(t.attr)
                continue
        raise Unsupported('statement in create_opcodes: ' + ast.unparse(st)[:60], st)
    return res, order


TBLNAME = {'opcodes': 'MAIN', 'after_CB': 'CB', 'after_ED': 'ED', 'after_DD': 'DD', 'after_FD': 'FD',
           'after_DDCB': 'DDCB', 'after_FDCB': 'FDCB'}


def instr_of_call(e, handlers, tables):
    if not (isinstance(e, ast.Call) and isinstance(e.func, ast.Attribute) and isinstance(e.func.value, ast.Name)
            and e.func.value.id == 'self'):
        raise Unsupported('dispatch entry ' + ast.unparse(e)[:60], e)
    name = e.func.attr
    if name in ('prefix', 'prefix2'):
        a = e.args[0]
        if not (isinstance(a, ast.Attribute) and a.attr in TBLNAME):
            raise Unsupported('prefix target', e)
        return f'.{name}_ .{TBLNAME[a.attr]}'
    if name not in handlers:
        raise Unsupported('dispatch to untranslated handler ' + name, e)
    h = handlers[name]
    args = [a for a in e.args if not (isinstance(a, ast.Name) and a.id in ('r', 'm'))]
    if e.keywords:
        raise Unsupported('keyword args in dispatch', e)
    vals = []
    for i, p in enumerate(h.params):
        if i < len(args):
            a = args[i]
            if h.kinds[p] != 'int':
                if not (isinstance(a, ast.Name) and a.id in tables):
                    raise Unsupported(f'table argument expected for {name}.{p}', e)
                m = tables[a.id]
                k = ('P' if m['leaf'] == 'pair' else 'I') + str(len(m['dims']))
                if k != h.kinds[p]:
                    raise Unsupported(f'table {a.id} has shape {k}, closure {name}.{p} uses {h.kinds[p]}', e)
                vals.append('.' + a.id)
            elif isinstance(a, ast.Name) and a.id in REG_CONSTS:
                vals.append(str(REG_CONSTS[a.id]))
            else:
                v = ast.literal_eval(ast.unparse(a))
                if not isinstance(v, int):
                    raise Unsupported('non-int dispatch arg', e)
                vals.append(lit(v))
        elif p in h.defaults:
            vals.append(lit(h.defaults[p]))
        else:
            raise Unsupported(f'missing argument {p} for {name}', e)
    return f'.{name} ' + ' '.join(vals) if vals else f'.{name}'


def gen_sim(repo, cmio=False):
    fn = 'skoolkit/cmiosimulator.py' if cmio else 'skoolkit/simulator.py'
    tables, _, _ = collect_tables(repo)
    with open(os.path.join(repo, 'skoolkit/simulator.py')) as f:
        base_mod = ast.parse(f.read())
    base_cls = find_class(base_mod, 'Simulator')
    methods = {m.name: m for m in base_cls.body if isinstance(m, ast.FunctionDef)}
    inherited = set(methods)
    if cmio:
        with open(os.path.join(repo, fn)) as f:
            mod = ast.parse(f.read())
        cls = find_class(mod, 'CMIOSimulator')
        for m in cls.body:
            if isinstance(m, ast.FunctionDef):
                methods[m.name] = m
                inherited.discard(m.name)
    handlers = {}
    for name, m in methods.items():
        if name in SKIP_METHODS:
            continue
        try:
            handlers[name] = translate_handler(m, tables, cmio=cmio and name not in inherited)
        except Unsupported as e:
            raise Unsupported(f'{fn}: {name}: {e}')
    create = methods['create_opcodes']
    disp, order = parse_dispatch(create, handlers, tables)
    ns = 'Cmio' if cmio else 'Sim'
    out = [f'-- GENERATED by translate/py2lean.py from {fn}. Do not edit.',
           'import SkoolVerif.Prelude.Machine', 'import SkoolVerif.Prelude.Attrs', 'import SkoolVerif.Gen.SimTblEnums']
    if cmio:
        out.append('import SkoolVerif.Model.Contend')
    out += ['set_option linter.unusedVariables false', 'open Z80', 'open Contend' if cmio else '', f'namespace {ns}', '']
    for h in handlers.values():
        out.append(h.lean)
        out.append('')
    out.append('inductive OpTbl where\n  | MAIN | CB | ED | DD | FD | DDCB | FDCB\n  deriving DecidableEq, Repr, Inhabited\n')
    out.append('inductive Instr where')
    for h in handlers.values():
        sig = ' '.join(f'({lname(p)} : {"Int" if h.kinds[p] == "int" else "Tbl" + h.kinds[p]})' for p in h.params)
        out.append(f'  | {h.name} {sig}'.rstrip())
    out.append('  | prefix_ (tbl : OpTbl)')
    out.append('  | prefix2_ (tbl : OpTbl)')
    out.append('  deriving DecidableEq, Repr, Inhabited\n')
    out.append('/-- Argument well-formedness (by parameter role); every dispatch-table entry is checked to satisfy it. -/')
    out.append('def instrWf : Instr → Bool')
    for h in handlers.values():
        ps = ' '.join(lname(p) for p in h.params)
        conds = []
        for p in h.params:
            if h.kinds[p] != 'int':
                if p in TABLE_IS_ROLE:
                    conds.append(f'decide ({lname(p)} = Tbl{h.kinds[p]}.{TABLE_IS_ROLE[p]})')
                    continue
                if p not in TABLE_DIMS_ROLE:
                    raise Unsupported(f'{fn}: {h.name}: no index-range role for table parameter {p}')
                conds.append(f'decide (Tbl{h.kinds[p]}.dims {lname(p)} = {TABLE_DIMS_ROLE[p]})')
                continue
            role = ROLE.get(f'{h.name}.{p}', ROLE.get(p))
            if role is None:
                raise Unsupported(f'{fn}: {h.name}: no well-formedness role for parameter {p}')
            conds.append('decide (' + role.format(v=lname(p)) + ')')
        if h.name in SP_PAIR_OK:
            conds.append('decide ((rl = 12 ∧ rh = 13) ∨ (rl ≠ 12 ∧ rh ≠ 13))')
        out.append(f'  | .{h.name} {ps} => ' .replace('  =>', ' =>') + (' && '.join(conds) if conds else 'true'))
    out.append('  | .prefix_ _ => true')
    out.append('  | .prefix2_ _ => true\n')
    out.append('/-- Run one (non-prefix) closure. -/')
    out.append('def execLeaf {μ : Type} [MemLike μ] (cfg : Cfg) : Instr → St μ → St μ')
    for h in handlers.values():
        ps = ' '.join(lname(p) for p in h.params)
        out.append(f'  | .{h.name} {ps}, s => {ns}.{h.name} cfg {ps} s'.replace('  ,', ','))
    out.append('  | .prefix_ _, s => s')
    out.append('  | .prefix2_ _, s => s\n')
    for name in order:
        out.append(f'def tbl_{TBLNAME[name]} : Array Instr := #[')
        ents = disp[name]
        for i, e in enumerate(ents):
            out.append(f'  {e}{"," if i < 255 else ""}')
        out.append(']\n')
    out.append('def OpTbl.arr : OpTbl → Array Instr')
    for name in order:
        out.append(f'  | .{TBLNAME[name]} => tbl_{TBLNAME[name]}')
    out.append('def OpTbl.all : List OpTbl := [.MAIN, .CB, .ED, .DD, .FD, .DDCB, .FDCB]\n')
    out.append('def OpTbl.get (t : OpTbl) (i : Int) : Instr := t.arr.getD i.toNat (.prefix_ .MAIN)')
    out.append('')
    out.append('''/-- `Simulator.prefix2`: DDCB/FDCB, opcode byte at PC+3. -/
def exec2 {μ : Type} [MemLike μ] (cfg : Cfg) (i : Instr) (s : St μ) : St μ :=
  match i with
  | .prefix2_ tbl => execLeaf cfg (tbl.get (mget s.mem ((s.pc + 3) % 65536))) s
  | i => execLeaf cfg i s

/-- `Simulator.prefix`: CB/ED/DD/FD, opcode byte at PC+1. -/
def exec {μ : Type} [MemLike μ] (cfg : Cfg) (i : Instr) (s : St μ) : St μ :=
  match i with
  | .prefix_ tbl => exec2 cfg (tbl.get (mget s.mem ((s.pc + 1) % 65536))) s
  | i => exec2 cfg i s

/-- `opcodes[memory[pc]]()` -/
def step {μ : Type} [MemLike μ] (cfg : Cfg) (s : St μ) : St μ :=
  exec cfg (OpTbl.get .MAIN (mget s.mem s.pc)) s
''')
    out.append(f'end {ns}')
    meta = {'handlers': {h.name: {'params': h.params, 'kinds': h.kinds, 'defaults': h.defaults} for h in handlers.values()},
            'tables': order}
    return '\n'.join(out) + '\n', meta


if __name__ == '__main__':
    import sys
    repo = sys.argv[1] if len(sys.argv) > 1 else '/repo'
    outdir = sys.argv[2] if len(sys.argv) > 2 else os.path.join(os.path.dirname(os.path.abspath(__file__)), '..', 'lean', 'SkoolVerif', 'Gen')
    os.makedirs(outdir, exist_ok=True)
    text, enums, meta = gen_simtables(repo)
    open(os.path.join(outdir, 'SimTables.lean'), 'w').write(text)
    open(os.path.join(outdir, 'SimTblEnums.lean'), 'w').write(enums)
    json.dump(meta, open(os.path.join(outdir, 'simtables.meta.json'), 'w'), indent=1)
    text, meta = gen_sim(repo)
    open(os.path.join(outdir, 'SimHandlers.lean'), 'w').write(text)
    text, meta = gen_sim(repo, cmio=True)
    open(os.path.join(outdir, 'CmioHandlers.lean'), 'w').write(text)
    print('generated')
