#!/usr/bin/env python3
"""Generators for property C07 (all instruction tables agree on length, mnemonic and timing).

gen_simfacts(repo) -> Gen/C07SimFacts.lean
    A small abstract interpretation of every closure of skoolkit/simulator.py (Python AST): along every
    path through the closure body it sums the `registers[25] += e` increments symbolically in the closure
    parameters and classifies the `registers[24] = ...` update as fall-through by k bytes
    (`(registers[24] + k) % 65536`, also through `pcn`/`end`/`pc` locals), unchanged, or a jump.  Branches
    whose test is decided by the closure parameters alone (`if c_and:`, `repeat and bc`, `F & 0 == 0`) are
    pruned by an explicit condition on the parameters.  The result is emitted as
        def Sim.instrTstates : Sim.Instr -> List Int          (every T-state increment the closure can make)
        def Sim.instrSize    : Sim.Instr -> Option Int        (bytes skipped on the fall-through paths)
        def Sim.instrFalls   : Sim.Instr -> Bool              (every feasible path falls through)
    TOGETHER WITH one theorem per closure, proved by one generic tactic against the model that
    py2lean generated from the same source:  the T increment of the closure is a member of instrTstates for
    every state, and the PC ends at (pc + size) % 65536 whenever instrFalls.  The derivation is therefore
    validated by proof, not trusted: a wrong derived fact makes its theorem fail.

gen_tables(repo) -> Gen/C07Tables.lean
    Imports skoolkit.disassembler / traceutils / opcodes / z80 from `repo` and dumps their instruction
    tables as Lean literals (decoder kinds by function name, templates pre-split at their `{}` fields,
    sizes, timings), including the per-option overlays that the Disassembler's `opcodes` configuration
    applies.  Anything the dump does not understand (unknown decoder function, unknown format field, a
    timing that is neither int nor pair, overlapping overlays) raises: a broken tie, never skipped.
"""
import ast
import importlib
import os
import string
import sys

sys.path.insert(0, os.path.dirname(os.path.abspath(__file__)))
import py2lean
from py2lean import lname, Unsupported

# --------------------------------------------------------------------------------------------
# (b) simulator facts
# --------------------------------------------------------------------------------------------


class Path:
    def __init__(self):
        self.t = []          # symbolic addends: int | param name
        self.pc = ('same',)  # ('same',) | ('ft', [addends]) | ('jump',)
        self.conds = []      # lean Prop texts over the closure parameters (feasibility)
        self.locs = {}       # local name -> [addends]  meaning registers[24] + sum(addends)

    def copy(self):
        p = Path()
        p.t = list(self.t)
        p.pc = self.pc
        p.conds = list(self.conds)
        p.locs = {k: list(v) for k, v in self.locs.items()}
        return p


def is_reg(node, idx):
    return (isinstance(node, ast.Subscript) and isinstance(node.value, ast.Name) and node.value.id == 'registers'
            and isinstance(node.slice, ast.Constant) and node.slice.value == idx)


class Interp:
    def __init__(self, name, params):
        self.name = name
        self.params = params

    def addend(self, node):
        if isinstance(node, ast.Constant) and isinstance(node.value, int) and not isinstance(node.value, bool):
            return node.value
        if isinstance(node, ast.Name) and node.id in self.params:
            return node.id
        return None

    def pc_affine(self, node, path):
        """registers[24] + k (k constant/parameter), possibly through a local: list of addends, or None."""
        if is_reg(node, 24):
            return []
        if isinstance(node, ast.Name) and node.id in path.locs:
            return list(path.locs[node.id])
        if isinstance(node, ast.BinOp) and isinstance(node.op, ast.Add):
            base = self.pc_affine(node.left, path)
            k = self.addend(node.right)
            if base is not None and k is not None:
                return base + [k]
        return None

    def mentions_pc(self, node, path):
        for n in ast.walk(node):
            if is_reg(n, 24) or (isinstance(n, ast.Name) and n.id in path.locs):
                return True
        return False

    def feas(self, test):
        """(condition for the test to be possibly true, condition for it to be possibly false) as Lean
        Props over the parameters, or None where no restriction is known."""
        if isinstance(test, ast.Name) and test.id in self.params:
            v = lname(test.id)
            return f'{v} ≠ 0', f'{v} = 0'
        if isinstance(test, ast.BoolOp) and isinstance(test.op, ast.And):
            ts = [self.feas(v)[0] for v in test.values]
            ts = [t for t in ts if t]
            return (' ∧ '.join(ts) if ts else None), None
        # (E & p) == q with p, q parameters: always true when p = 0 and q = 0
        if (isinstance(test, ast.Compare) and len(test.ops) == 1 and isinstance(test.ops[0], ast.Eq)
                and isinstance(test.left, ast.BinOp) and isinstance(test.left.op, ast.BitAnd)
                and isinstance(test.left.right, ast.Name) and test.left.right.id in self.params
                and isinstance(test.comparators[0], ast.Name) and test.comparators[0].id in self.params):
            p, q = lname(test.left.right.id), lname(test.comparators[0].id)
            return None, f'¬ ({p} = 0 ∧ {q} = 0)'
        return None, None

    def run(self, stmts, paths):
        for st in stmts:
            paths = self.stmt(st, paths)
        return paths

    def stmt(self, st, paths):
        if isinstance(st, ast.If):
            ft, ff = self.feas(st.test)
            a = [p.copy() for p in paths]
            b = [p.copy() for p in paths]
            for p in a:
                if ft:
                    p.conds.append(ft)
            for p in b:
                if ff:
                    p.conds.append(ff)
            return self.run(st.body, a) + self.run(st.orelse, b)
        if isinstance(st, ast.AugAssign):
            if is_reg(st.target, 25):
                k = self.addend(st.value)
                if k is None or not isinstance(st.op, ast.Add):
                    raise Unsupported(f'{self.name}: T-state update {ast.unparse(st)}', st)
                for p in paths:
                    p.t.append(k)
                return paths
            if is_reg(st.target, 24):
                raise Unsupported(f'{self.name}: PC update {ast.unparse(st)}', st)
            if isinstance(st.target, ast.Name):
                for p in paths:
                    p.locs.pop(st.target.id, None)
            return paths
        if isinstance(st, ast.Assign):
            for t in st.targets:
                for e in (t.elts if isinstance(t, ast.Tuple) else [t]):
                    if is_reg(e, 25):
                        raise Unsupported(f'{self.name}: T-state assignment {ast.unparse(st)}', st)
                    if isinstance(e, ast.Subscript) and isinstance(e.slice, ast.Slice) and isinstance(e.value, ast.Name) \
                            and e.value.id == 'registers':
                        hi = e.slice.upper.value if e.slice.upper is not None else 30
                        if hi > 24:
                            raise Unsupported(f'{self.name}: slice assignment over PC/T {ast.unparse(st)}', st)
            if len(st.targets) == 1 and is_reg(st.targets[0], 24):
                for p in paths:
                    v = st.value
                    k = None
                    if isinstance(v, ast.BinOp) and isinstance(v.op, ast.Mod) and isinstance(v.right, ast.Constant) \
                            and v.right.value == 65536:
                        k = self.pc_affine(v.left, p)
                    if k is not None:
                        if p.pc != ('same',):
                            raise Unsupported(f'{self.name}: PC assigned twice on a path', st)
                        p.pc = ('ft', k)
                    else:
                        p.pc = ('jump',)
                return paths
            if len(st.targets) == 1 and isinstance(st.targets[0], ast.Name):
                n = st.targets[0].id
                for p in paths:
                    k = self.pc_affine(st.value, p)
                    if k is not None:
                        p.locs[n] = k
                    else:
                        p.locs.pop(n, None)
                return paths
            for t in st.targets:
                for e in (t.elts if isinstance(t, ast.Tuple) else [t]):
                    if isinstance(e, ast.Name):
                        for p in paths:
                            p.locs.pop(e.id, None)
            return paths
        if isinstance(st, (ast.Expr, ast.Pass)):
            return paths
        raise Unsupported(f'{self.name}: statement {type(st).__name__}', st)


def sum_text(addends):
    const = sum(a for a in addends if isinstance(a, int))
    syms = [lname(a) for a in addends if not isinstance(a, int)]
    if not syms:
        return py2lean.lit(const)
    s = ' + '.join(syms)
    return f'({s} + {const})' if const else (f'({s})' if len(syms) > 1 else s)


def closure_paths(repo):
    with open(os.path.join(repo, 'skoolkit/simulator.py')) as f:
        mod = ast.parse(f.read())
    cls = py2lean.find_class(mod, 'Simulator')
    _, meta = py2lean.gen_sim(repo)
    res = {}
    for m in cls.body:
        if not isinstance(m, ast.FunctionDef) or m.name not in meta['handlers']:
            continue
        h = meta['handlers'][m.name]
        func = [s for s in m.body if isinstance(s, ast.FunctionDef)][0]
        it = Interp(m.name, h['params'])
        paths = it.run(func.body, [Path()])
        res[m.name] = paths
    missing = [n for n in meta['handlers'] if n not in res]
    if missing:
        raise Unsupported('closures not found in Simulator: ' + ', '.join(missing))
    return meta, res


# closures for which the generic tactic is not expected to close the goal (none at present); they are
# listed in the generated file and excluded from the lifted theorems by `Sim.c07Pending`.
PENDING_T = ()
PENDING_PC = ()


def sig_of(h):
    return ' '.join(f'({lname(p)} : {"Int" if h["kinds"][p] == "int" else "Tbl" + h["kinds"][p]})' for p in h['params'])


def gen_simfacts(repo):
    meta, res = closure_paths(repo)
    H = meta['handlers']
    out = ['-- GENERATED by translate/gen_c07.py from skoolkit/simulator.py. Do not edit.',
           'import SkoolVerif.Gen.SimHandlers', 'import SkoolVerif.Proofs.MachineLemmas', 'import SkoolVerif.Proofs.C07SimBase',
           'set_option linter.unusedVariables false', 'set_option linter.unusedSimpArgs false', 'open Z80', 'namespace Sim', 'variable {μ : Type} [MemLike μ]', '']
    tdefs, sdefs, fdefs, jdefs = [], [], [], []
    kdefs = {'ft': [], 'same': [], 'jump': []}
    kind_names = []
    thms = []
    t_names, pc_names = [], []
    for name, h in H.items():
        paths = res[name]
        ps = ' '.join(lname(p) for p in h['params'])
        pat = f'  | .{name} {ps} =>'.replace('  =>', ' =>')
        # T-states
        seen = []
        for p in paths:
            key = (tuple(p.conds), sum_text(p.t))
            if key not in seen:
                seen.append(key)
        # drop conditional duplicates of an unconditional entry
        uncond = {t for c, t in seen if not c}
        seen = [(c, t) for c, t in seen if not c or t not in uncond]
        parts = []
        for c, t in seen:
            parts.append(f'[{t}]' if not c else f'(if {" ∧ ".join(c)} then [{t}] else [])')
        tdefs.append(f'{pat} ' + ' ++ '.join(parts))
        # size
        fts = [p for p in paths if p.pc[0] == 'ft']
        sizes = []
        for p in fts:
            t = sum_text(p.pc[1])
            if t not in sizes:
                sizes.append(t)
        if len(sizes) > 1:
            raise Unsupported(f'{name}: fall-through paths disagree on the size: {sizes}')
        nonft = [p for p in paths if p.pc[0] != 'ft']
        if not fts:
            sdefs.append(f'{pat} none')
            fdefs.append(f'{pat} false')
        else:
            # feasibility of "some fall-through path": disjunction of their conditions
            if any(not p.conds for p in fts):
                sdefs.append(f'{pat} some {sizes[0]}')
            else:
                alts = []
                for p in fts:
                    c = ' ∧ '.join(p.conds)
                    if c not in alts:
                        alts.append(c)
                sdefs.append(f'{pat} if ' + ' ∨ '.join(f'({c})' for c in alts) + f' then some {sizes[0]} else none')
            if not nonft:
                fdefs.append(f'{pat} true')
            elif any(not p.conds for p in nonft):
                fdefs.append(f'{pat} false')
            else:
                alts = []
                for p in nonft:
                    c = ' ∧ '.join(p.conds)
                    if c not in alts:
                        alts.append(c)
                fdefs.append(f'{pat} decide (' + ' ∧ '.join(f'¬ ({c})' for c in alts) + ')')
        # T-state increments by what happens to PC on the path: falls through / unchanged / jumps
        for kind in ('ft', 'same', 'jump'):
            ks = []
            for p in paths:
                if p.pc[0] != kind:
                    continue
                key = (tuple(p.conds), sum_text(p.t))
                if key not in ks:
                    ks.append(key)
            unc = {t for c, t in ks if not c}
            ks = [(c, t) for c, t in ks if not c or t not in unc]
            parts = [f'[{t}]' if not c else f'(if {" ∧ ".join(c)} then [{t}] else [])' for c, t in ks]
            kdefs[kind].append(f'{pat} ' + (' ++ '.join(parts) if parts else '[]'))
        sig = sig_of(h)
        if fts and nonft:
            kind_names.append(name)
            ksize = sizes[0]
            thms.append(f'''set_option maxHeartbeats 1000000 in
theorem pcByT_{name} (cfg : Cfg) {sig} (s : St μ) :
    ((Sim.{name} cfg {ps} s).t - s.t ∈ instrFallT (.{name} {ps}) →
      (∀ x ∈ instrFallT (.{name} {ps}), x ∉ instrSameT (.{name} {ps}) ∧ x ∉ instrJumpT (.{name} {ps})) →
      (Sim.{name} cfg {ps} s).pc = (s.pc + {ksize}) % 65536) ∧
    ((Sim.{name} cfg {ps} s).t - s.t ∈ instrSameT (.{name} {ps}) →
      (∀ x ∈ instrSameT (.{name} {ps}), x ∉ instrFallT (.{name} {ps}) ∧ x ∉ instrJumpT (.{name} {ps})) →
      (Sim.{name} cfg {ps} s).pc = s.pc) := by
  simp only [instrFallT, instrSameT, instrJumpT, sim_handler, Id.run, pure] <;> c07_pcByT
''')
        if name not in PENDING_T:
            t_names.append(name)
            thms.append(f'''set_option maxHeartbeats 1000000 in
theorem tstates_{name} (cfg : Cfg) {sig} (s : St μ) :
    (Sim.{name} cfg {ps} s).t - s.t ∈ instrTstates (.{name} {ps}) := by
  simp only [instrTstates, sim_handler, Id.run, pure] <;> c07_tstates
''')
        if fts and name not in PENDING_PC and not any(not p.conds for p in nonft):
            pc_names.append(name)
            thms.append(f'''set_option maxHeartbeats 1000000 in
theorem pc_{name} (cfg : Cfg) {sig} (s : St μ) (hf : instrFalls (.{name} {ps}) = true) :
    (Sim.{name} cfg {ps} s).pc = (s.pc + {sizes[0]}) % 65536 := by
  try simp only [instrFalls, decide_eq_true_eq] at hf
  simp only [sim_handler, Id.run, pure] <;> c07_pc
''')
    out.append('/-- every T-state increment the closure can make (derived from the Python AST, proved below) -/')
    out.append('def instrTstates : Instr → List Int')
    out += tdefs
    out.append('  | .prefix_ _ => [0]\n  | .prefix2_ _ => [0]\n')
    out.append('/-- number of bytes the closure skips on its fall-through paths (`none`: it always jumps) -/')
    out.append('def instrSize : Instr → Option Int')
    out += sdefs
    out.append('  | .prefix_ _ => none\n  | .prefix2_ _ => none\n')
    for kind, nm, doc in (('ft', 'instrFallT', 'T-state increments of the paths that fall through'),
                          ('same', 'instrSameT', 'T-state increments of the paths that leave PC unchanged (repeat, halt)'),
                          ('jump', 'instrJumpT', 'T-state increments of the paths that assign PC a jump target')):
        out.append(f'/-- {doc} -/')
        out.append(f'def {nm} : Instr → List Int')
        out += kdefs[kind]
        out.append('  | .prefix_ _ => []\n  | .prefix2_ _ => []\n')
    out.append('/-- every feasible path of the closure falls through (no jump, no repeat, no halt) -/')
    out.append('def instrFalls : Instr → Bool')
    out += fdefs
    out.append('  | .prefix_ _ => false\n  | .prefix2_ _ => false\n')
    out += thms
    out.append('theorem tstates_execLeaf (cfg : Cfg) (i : Instr) (s : St μ) : (execLeaf cfg i s).t - s.t ∈ instrTstates i := by')
    out.append('  cases i <;> simp only [execLeaf]')
    for name, h in H.items():
        out.append(f'  · exact tstates_{name} cfg ' + ' '.join('_' for _ in h['params']) + ' s')
    out.append('  · simp [instrTstates]\n  · simp [instrTstates]\n')
    out.append('theorem pc_execLeaf (cfg : Cfg) (i : Instr) (s : St μ) (k : Int) (hk : instrSize i = some k)\n'
               '    (hf : instrFalls i = true) : (execLeaf cfg i s).pc = (s.pc + k) % 65536 := by')
    out.append('  cases i <;> simp only [execLeaf]')
    for name, h in H.items():
        us = ' '.join('_' for _ in h['params'])
        if name in pc_names:
            out.append(f'  · have h := pc_{name} cfg {us} s hf; simp only [instrSize] at hk; grind')
        else:
            out.append('  · simp [instrFalls] at hf')
    out.append('  · simp [instrFalls] at hf\n  · simp [instrFalls] at hf\n')
    out.append('''/-- the T-states a closure took tell whether it fell through: if the increment is one that only
fall-through paths make, PC advanced by the closure's size; if it is one that only PC-preserving paths make
(a repeating block instruction), PC is unchanged -/
theorem pcByT_execLeaf (cfg : Cfg) (i : Instr) (s : St μ) :
    ((execLeaf cfg i s).t - s.t ∈ instrFallT i →
      (∀ x ∈ instrFallT i, x ∉ instrSameT i ∧ x ∉ instrJumpT i) →
      ∀ k, instrSize i = some k → (execLeaf cfg i s).pc = (s.pc + k) % 65536) ∧
    ((execLeaf cfg i s).t - s.t ∈ instrSameT i →
      (∀ x ∈ instrSameT i, x ∉ instrFallT i ∧ x ∉ instrJumpT i) →
      (execLeaf cfg i s).pc = s.pc) := by
  cases i''')
    for name, h in H.items():
        us = ' '.join('_' for _ in h['params'])
        if name in kind_names:
            out.append(f'  · simp only [execLeaf]\n    refine ⟨fun h1 h2 k hk => ?_, (pcByT_{name} cfg {us} s).2⟩\n'
                       f'    have h3 := (pcByT_{name} cfg {us} s).1 h1 h2\n    simp only [instrSize] at hk\n    grind')
        elif name in pc_names:
            out.append(f'  · exact ⟨fun _ _ k hk => pc_execLeaf cfg _ s k hk rfl, fun h1 _ => absurd h1 List.not_mem_nil⟩')
        else:
            out.append('  · exact ⟨fun h1 _ => absurd h1 List.not_mem_nil, fun h1 _ => absurd h1 List.not_mem_nil⟩')
    out.append('  · exact ⟨fun h1 _ => absurd h1 List.not_mem_nil, fun h1 _ => absurd h1 List.not_mem_nil⟩\n'
               '  · exact ⟨fun h1 _ => absurd h1 List.not_mem_nil, fun h1 _ => absurd h1 List.not_mem_nil⟩\n')
    out.append('end Sim')
    return '\n'.join(out) + '\n'



# --------------------------------------------------------------------------------------------
# (a) data tables of disassembler.py, traceutils.py, opcodes.py, z80.py
# --------------------------------------------------------------------------------------------

OPTIONS = ('ED63', 'ED6B', 'ED70', 'ED71', 'IM', 'NEG', 'RETN', 'XYCB')
D_TEMPLATE_KINDS = ('no_arg', 'byte_arg', 'word_arg', 'jr_arg', 'rst_arg', 'index', 'index_arg')
D_PREFIX_KINDS = ('cb_arg', 'ed_arg', 'dd_arg', 'fd_arg', 'ddcb_arg', 'defb4')
T_KINDS = ('operation', 'byte', 'word', 'jump_offset', 'offset', 'offset_byte', 'rst', 'defb')


class TableError(Exception):
    pass


def load_modules(repo):
    """Import the four modules from `repo` (purging any skoolkit already imported)."""
    saved = {k: v for k, v in sys.modules.items() if k == 'skoolkit' or k.startswith('skoolkit.')}
    for k in saved:
        del sys.modules[k]
    sys.path.insert(0, repo)
    try:
        mods = [importlib.import_module('skoolkit.' + n) for n in ('disassembler', 'traceutils', 'opcodes', 'z80', 'snaskool')]
        for m in mods:
            if not os.path.abspath(m.__file__).startswith(os.path.abspath(repo) + os.sep):
                raise TableError(f'{m.__name__} imported from {m.__file__}, not from {repo}')
    finally:
        sys.path.remove(repo)
        for k in [k for k in sys.modules if k == 'skoolkit' or k.startswith('skoolkit.')]:
            del sys.modules[k]
        sys.modules.update(saved)
    return mods


class _Instr:
    def __init__(self, address, operation, data):
        self.address, self.operation, self.bytes = address, operation, data


def make_disassembler(disassembler, snaskool, snapshot, opcodes='', wrap=False, lower=False, hexa=False):
    cfg = snaskool.DisassemblerConfig(hexa, lower, 8, 65, 1, False, _Instr, opcodes, wrap)
    return disassembler.Disassembler(snapshot, cfg)


def codes(s):
    return '[' + ','.join(str(ord(c)) for c in s) + ']'


def d_entry(dec, template, flags, where):
    """(bound method, template, flags) of the Disassembler -> Lean DEntry text."""
    name = getattr(dec, '__name__', None)
    if name not in D_TEMPLATE_KINDS + D_PREFIX_KINDS:
        raise TableError(f'disassembler {where}: unknown decoder {dec!r}')
    if not isinstance(template, str) or not isinstance(flags, int):
        raise TableError(f'disassembler {where}: unexpected entry shape')
    num = 0
    if name == 'rst_arg':
        try:
            num = int(template[4:])
        except ValueError:
            raise TableError(f'disassembler {where}: rst_arg template {template!r}')
        if num < 0:
            raise TableError(f'disassembler {where}: negative RST operand')
    # any brace that is not part of a '{}' field would make str.format behave differently from the model
    rest = template.replace('{}', '')
    if '{' in rest or '}' in rest:
        raise TableError(f'disassembler {where}: template {template!r} has fields other than {{}}')
    segs = '[' + ','.join(codes(x) for x in template.split('{}')) + ']'
    return f'⟨.{name}, {segs}, {num}, {flags}⟩'


def dis_tables(disassembler, snaskool):
    d0 = make_disassembler(disassembler, snaskool, [0] * 65536)

    def table(d, attr, shape):
        t = getattr(d, attr)
        res = {}
        for k, v in t.items():
            if not (isinstance(k, int) and 0 <= k < 256):
                raise TableError(f'disassembler {attr}: key {k!r}')
            where = f'{attr}[{k:#04x}]'
            if shape == 'str':
                if not isinstance(v, str):
                    raise TableError(f'disassembler {where}: not a string')
                res[k] = codes(v)
            elif shape == 2:
                res[k] = d_entry(v[0], v[1], 0, where) if len(v) == 2 else None
            else:
                res[k] = d_entry(v[0], v[1], v[2], where) if len(v) == 3 else None
            if res[k] is None:
                raise TableError(f'disassembler {where}: tuple of length {len(v)}')
        return res

    shapes = {'ops': 2, 'after_CB': 'str', 'after_DD': 2, 'after_ED': 3, 'after_DDCB': 3}
    base = {a: table(d0, a, s) for a, s in shapes.items()}
    for a in ('ops', 'after_CB'):
        if sorted(base[a]) != list(range(256)):
            raise TableError(f'disassembler {a}: not all 256 keys present')
    overlays = []
    for n, opt in enumerate(OPTIONS):
        d = make_disassembler(disassembler, snaskool, [0] * 65536, opcodes=opt)
        for a, s in shapes.items():
            t = table(d, a, s)
            for k in sorted(t):
                if base[a].get(k) != t[k]:
                    if a not in ('after_ED', 'after_DDCB'):
                        raise TableError(f'disassembler: option {opt} changes {a}')
                    overlays.append((n, 0 if a == 'after_ED' else 1, k, t[k]))
            if set(base[a]) - set(t):
                raise TableError(f'disassembler: option {opt} removes keys of {a}')
    # ALL = exactly the eight options, overlays pairwise disjoint
    keys = [(o[1], o[2]) for o in overlays]
    if len(set(keys)) != len(keys):
        raise TableError('disassembler: additional-opcode options overlap')
    dall = make_disassembler(disassembler, snaskool, [0] * 65536, opcodes='ALL')
    for a, s in shapes.items():
        want = dict(base[a])
        for n, tb, k, e in overlays:
            if (a == 'after_ED' and tb == 0) or (a == 'after_DDCB' and tb == 1):
                want[k] = e
        if want != table(dall, a, s):
            raise TableError(f'disassembler: Opcodes=ALL is not the union of {",".join(OPTIONS)} on {a}')
    directives = [d0.defb, d0.defm, d0.defs, d0.defw]
    return base, overlays, directives


def t_pieces(template, where):
    out = []
    try:
        parsed = list(string.Formatter().parse(template))
    except ValueError as e:
        raise TableError(f'traceutils {where}: template {template!r}: {e}')
    for lit_, field, spec, conv in parsed:
        if lit_:
            out.append(f'.lit {codes(lit_)}')
        if field is None:
            continue
        key = (field, spec, conv)
        m = {('p', '', None): '.P', ('n', '{b}', None): '.NB', ('n', '{w}', None): '.NW', ('s', '', None): '.S',
             ('d', '{b}', None): '.DB'}
        if key not in m:
            raise TableError(f'traceutils {where}: template {template!r}: unknown field {{{field}:{spec}}}')
        out.append(m[key])
    return '[' + ', '.join(out) + ']'


def trace_tables(traceutils):
    res = {}
    for name in ('OPCODES', 'AFTER_CB', 'AFTER_DD', 'AFTER_ED', 'AFTER_FD', 'AFTER_DDCB', 'AFTER_FDCB'):
        t = getattr(traceutils, name)
        if len(t) != 256:
            raise TableError(f'traceutils.{name}: {len(t)} entries')
        rows = []
        for k, e in enumerate(t):
            where = f'{name}[{k:#04x}]'
            if len(e) != 3:
                raise TableError(f'traceutils {where}: tuple of length {len(e)}')
            func, op, size = e
            if not isinstance(op, str) or not isinstance(size, int) or size < 0:
                raise TableError(f'traceutils {where}: unexpected entry shape')
            if func is None:
                rows.append((f'⟨none, [], {size}⟩', ''))
                continue
            fn = getattr(func, '__name__', None)
            if fn not in T_KINDS or getattr(traceutils, fn, None) is not func:
                raise TableError(f'traceutils {where}: unknown function {func!r}')
            if fn == 'operation':
                pieces = f'[.lit {codes(op)}]'      # returned as is, never formatted
            else:
                pieces = t_pieces(op, where)
            rows.append((f'⟨some .{fn}, {pieces}, {size}⟩', op))
        res[name] = rows
    return res


def decode_tables(opcodes):
    res = {}
    for name in ('OPCODES', 'AFTER_CB', 'AFTER_DD', 'AFTER_FD', 'AFTER_ED', 'AFTER_DDCB', 'AFTER_FDCB'):
        t = getattr(opcodes, name)
        rows = []
        for k in range(256):
            if k in t:
                e = t[k]
                if len(e) != 4 or not isinstance(e[0], int) or e[0] < 0 or not isinstance(e[3], str):
                    raise TableError(f'opcodes.{name}[{k:#04x}]: unexpected entry shape')
                rows.append((f'some {e[0]}', e[3]))
            else:
                rows.append(('none', ''))
        if any(not (isinstance(k, int) and 0 <= k < 256) for k in t):
            raise TableError(f'opcodes.{name}: key out of range')
        res[name] = rows
    return res


def timing_tables(z80):
    res = {}
    for name in ('TIMINGS', 'AFTER_CB_TIMINGS', 'AFTER_DD_TIMINGS', 'AFTER_ED_TIMINGS', 'AFTER_DDCB_TIMINGS'):
        t = getattr(z80, name)
        rows = []
        for k in range(256):
            if k not in t:
                rows.append('none')
                continue
            v = t[k]
            if isinstance(v, int) and not isinstance(v, bool):
                rows.append(f'some (.one {py2lean.lit(v)})')
            elif isinstance(v, tuple) and len(v) == 2 and all(isinstance(x, int) for x in v):
                rows.append(f'some (.two {py2lean.lit(v[0])} {py2lean.lit(v[1])})')
            else:
                raise TableError(f'z80.{name}[{k:#04x}]: timing {v!r} is neither an int nor a pair')
        if any(not (isinstance(k, int) and 0 <= k < 256) for k in t):
            raise TableError(f'z80.{name}: key out of range')
        res[name] = rows
    return res


def arr(name, typ, rows, doc):
    """256 rows -> a complete binary tree of depth 8 (`T256`), leaves in key order, one per line."""
    if len(rows) != 256:
        raise TableError(f'{name}: {len(rows)} rows')
    out = [f'/-- {doc} -/', f'def {name} : T256 {typ} :=']

    def emit(lo, n, ind):
        if n == 1:
            r = rows[lo]
            text, comment = r if isinstance(r, tuple) else (r, '')
            out.append('  ' * ind + f'(.leaf ({text}))' + (f'  -- {lo:02X} {comment}' if comment else f'  -- {lo:02X}'))
            return
        out.append('  ' * ind + '(.node')
        emit(lo, n // 2, ind + 1)
        emit(lo + n // 2, n // 2, ind + 1)
        out.append('  ' * ind + ')')
    emit(0, 256, 1)
    out.append('')
    return out


def gen_tables(repo):
    disassembler, traceutils, opcodes, z80, snaskool = load_modules(repo)
    base, overlays, directives = dis_tables(disassembler, snaskool)
    out = ['-- GENERATED by translate/gen_c07.py from skoolkit/{disassembler,traceutils,opcodes,z80}.py. Do not edit.',
           'import SkoolVerif.Model.InstrDecode', 'set_option maxRecDepth 100000', 'open InstrDec', 'namespace C07Gen', '']
    # disassembler
    d0 = make_disassembler(disassembler, snaskool, [0] * 65536)

    def text_of(attr, k):
        v = getattr(d0, attr).get(k)
        if v is None:
            return ''
        return v if isinstance(v, str) else v[1]
    out += arr('disOps', 'DEntry', [(base['ops'][k], text_of('ops', k)) for k in range(256)], 'Disassembler.ops')
    out += arr('disAfterCB', '(List Nat)', [(base['after_CB'][k], text_of('after_CB', k)) for k in range(256)], 'Disassembler.after_CB')
    for attr, nm in (('after_DD', 'disAfterDD'), ('after_ED', 'disAfterED'), ('after_DDCB', 'disAfterDDCB')):
        rows = [(('some ' + base[attr][k]) if k in base[attr] else 'none', text_of(attr, k)) for k in range(256)]
        out += arr(nm, '(Option DEntry)', rows, f'Disassembler.{attr} with no additional opcodes (`dict.get`: `none` = key absent)')
    out.append('/-- what each additional-opcode option (`' + ','.join(OPTIONS) + '`, numbered from 0) assigns: (option, table: 0 = after_ED, 1 = after_DDCB, key, entry) -/')
    out.append('def disOverlays : List Overlay := [')
    for i, (n, tb, k, e) in enumerate(overlays):
        out.append(f'  ⟨{n}, {tb}, {k}, {e}⟩{"," if i < len(overlays) - 1 else ""}  -- {OPTIONS[n]} {k:02X}')
    out.append(']\n')
    out.append(f'def disDefb : List Nat := {codes(directives[0])}\n')
    out.append('def disTables : DTables := ⟨disOps, disAfterCB, disAfterDD, disAfterED, disAfterDDCB, disOverlays, disDefb⟩\n')
    # traceutils
    tt = trace_tables(traceutils)
    for name, rows in tt.items():
        out += arr('tr' + name, 'TEntry', rows, f'traceutils.{name}')
    out.append('def trTables : TTables := ⟨trOPCODES, trAFTER_CB, trAFTER_ED, trAFTER_DD, trAFTER_FD, trAFTER_DDCB, trAFTER_FDCB⟩\n')
    # opcodes
    dt = decode_tables(opcodes)
    for name, rows in dt.items():
        out += arr('dec' + name, '(Option Nat)', rows, f'sizes of opcodes.{name} (`none` = key absent)')
    out.append('def decTables : CTables := ⟨decOPCODES, decAFTER_CB, decAFTER_ED, decAFTER_DD, decAFTER_FD, decAFTER_DDCB, decAFTER_FDCB⟩\n')
    # z80
    zt = timing_tables(z80)
    for name, rows in zt.items():
        out += arr('tm' + name, '(Option Timing)', rows, f'z80.{name} (`none` = key absent)')
    out.append('def tmTables : ZTables := ⟨tmTIMINGS, tmAFTER_CB_TIMINGS, tmAFTER_ED_TIMINGS, tmAFTER_DD_TIMINGS, tmAFTER_DDCB_TIMINGS⟩\n')
    out.append('end C07Gen')
    return '\n'.join(out) + '\n'


if __name__ == '__main__':
    repo = sys.argv[1] if len(sys.argv) > 1 else '/repo'
    outdir = os.path.join(os.path.dirname(os.path.abspath(__file__)), '..', 'lean', 'SkoolVerif', 'Gen')
    open(os.path.join(outdir, 'C07SimFacts.lean'), 'w').write(gen_simfacts(repo))
    open(os.path.join(outdir, 'C07Tables.lean'), 'w').write(gen_tables(repo))
    print('generated C07SimFacts, C07Tables')
