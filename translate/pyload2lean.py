#!/usr/bin/env python3
"""The LOAD machinery of skoolkit/loadtracer.py -> Lean 4 (`Gen/PyLoad.lean`, namespace `PyLoad`).  Built on the loop translator
`translate/pyloop2lean.py` (same statement / expression subset, same `st : St μ` state variable) and on the table translator of
`translate/py2lean.py`.  Translated on every run from the working tree; anything outside the subset raises `Unsupported`.

  tables      the module-level tuples `DEC`, `DEC0`, `INC0` of loadtracer.py (`PyLoad.Tbl.*`, functions of the index; a lookup
              `T[i]` from code is emitted as `T i` together with the Python bounds rule: see `index` below)
  dec_a       `LoadTracer.dec_a(self, dec_a_jr, dec_a_jp)`: the prologue (`registers = self.simulator.registers`,
              `memory = self.simulator.memory`), `def func():` and `return func` are checked by exact text; the body of the closure
              `func` is translated: `PyLoad.dec_a_func`.  `self.dec_a_jr_hits += 1` etc. are counters (locals of the result);
              `registers[0], registers[1] = DEC[i][j]` is a pair assignment (right-hand side first); bare `return` = early return.
  stop_tape / next_block   `LoadTracer.stop_tape`, `LoadTracer.next_block`: over the tracer state `TState` (the list `self.state` and the
              attributes `block_index`, `block_data_index`, `keys`): see `TRACER STATE` below.
  tape section of `run`  the statements of the Python load loop between `if state[4] and tstates >= state[0]:` and `pc = registers[24]`
              (loop CORE, found by exact text of its test), with the inner `while index < max_index and edges[index + 1] < tstates`.
  fast-forward of `_read_port`  the body of `if memory[pc - acc.c0:pc + acc.c1] == acc.code:` up to `if i:` (the CORE: what is done once
              an accelerator has matched), `acc.<field>` being the fields of the matched `Accelerator`.

  index       Python sequence indexing `seq[i]`: for a list/tuple of known length n the value is defined for -n <= i < n (negative
              indices count from the end), anything else raises IndexError.  Lookups in the module tables and in `edges` are emitted
              through `PyLoad.pyIdx n i : Option Int` (the normalised index) and an IndexError is the result `none` of the function.

TRACER STATE.  `state[k]` for a literal k in 0..9 is the field `s<k>` of `TState`; `self.block_index`, `self.block_data_index` are Int
fields, `self.keys` is represented by `hasKeys : Bool` (`keys is not None`, which is all `run` looks at: `if self.keys`... see KEYS_NOTE),
`len(self.blocks)` / `self.blocks[i].<start|end|keys>` come from the configuration `TapeIn` (edges, blocks) passed as a parameter;
`write_line('Tape finished')` appends a message tag to `msgs`.
"""
import ast
import os
import re
import sys

sys.path.insert(0, os.path.dirname(os.path.abspath(__file__)))
import py2lean
import pyloop2lean
from py2lean import Unsupported, lname
from pyloop2lean import LoopTr, Fn, method, RECORD

LT = 'skoolkit/loadtracer.py'
LT_TABLES = ('DEC', 'DEC0', 'INC0')
IMPORT_R1 = 'from skoolkit.simulator import R1'
DEC_A_PROLOGUE = ['registers = self.simulator.registers', 'memory = self.simulator.memory']
DEC_A_COUNTERS = ('dec_a_jr_hits', 'dec_a_jp_hits', 'dec_a_misses')
# attribute of loadsample.Accelerator -> field of LoadTape.Accel (the structure translate/gen_c13.py dumps ACCELERATORS into)
ACC_FIELDS = {'c0': 'c0', 'c1': 'c1', 'counter': 'counter', 'inc': 'inc', 'loop_time': 'loopTime', 'loop_r_inc': 'loopRInc', 'ear': 'ear',
              'ear_mask': 'earMask', 'polarity': 'polarity'}
ACC_INIT = ['self.name = name', 'self.code = code', 'self.c0 = offset', 'self.c1 = len(code) - offset', 'self.counter = counter', 'self.inc = inc',
            'self.loop_time = loop_time', 'self.loop_r_inc = loop_r_inc', 'self.ear = ear', 'self.ear_mask = ear_mask', 'self.polarity = polarity',
            'self.hits = 0']
# LoadTracer.state[k] -> field of LoadTape.TS (the comments of the list literal in LoadTracer.__init__ name the cells)
STATE_FIELDS = ['nextEdge', 'index', 'ended', 'blockEnd', 'running', 'custom', 'endTime', 'announce', 'nextInt', 'lastFrame']
pyloop2lean.TYNAME['ts'] = 'LoadTape.TS'
# how the closure gets its arguments and its slot (LoadTracer.__init__), exact text
DEC_A_INSTALL = ("if hasattr(simulator, 'opcodes') and self.accel_dec_a:\n    dec_a_jr = self.accel_dec_a & 1\n    dec_a_jp = self.accel_dec_a & 2\n"
                 "    simulator.opcodes[61] = self.dec_a(dec_a_jr, dec_a_jp)")


def lt_module(repo):
    with open(os.path.join(repo, LT)) as f:
        return ast.parse(f.read(), LT)


def lt_tables(repo):
    """-> (meta {name: {'dims', 'leaf'}}, [lean def text]) for DEC / DEC0 / INC0 of loadtracer.py"""
    mod = lt_module(repo)
    tables, defs = {}, []
    for st in mod.body:
        if isinstance(st, ast.Assign) and len(st.targets) == 1 and isinstance(st.targets[0], ast.Name) and st.targets[0].id in LT_TABLES:
            name = st.targets[0].id
            if name in tables:
                raise Unsupported(f'{LT}: table {name} assigned twice')
            try:
                meta, text = py2lean.translate_table(name, st.value, tables)
            except Unsupported as e:
                raise Unsupported(f'{LT}: table {name}: {e}')
            tables[name] = meta
            defs.append(text)
        elif isinstance(st, ast.Assign):
            raise Unsupported(f'{LT}: unexpected module-level assignment `{ast.unparse(st)[:60]}`')
    for n in LT_TABLES:
        if n not in tables:
            raise Unsupported(f'{LT}: module-level table {n} not found')
    want = {'DEC': ([2, 256], 'pair'), 'DEC0': ([256], 'pair'), 'INC0': ([256], 'pair')}
    for n, (d, leaf) in want.items():
        if tables[n]['dims'] != d or tables[n]['leaf'] != leaf:
            raise Unsupported(f'{LT}: table {n} has shape {tables[n]["dims"]} {tables[n]["leaf"]}, expected {d} {leaf}')
    if not any(isinstance(st, ast.ImportFrom) and ast.unparse(st) == IMPORT_R1 for st in mod.body):
        raise Unsupported(f'{LT}: `{IMPORT_R1}` not found (R1 is taken to be the simulator\'s table)')
    return tables, defs


class LoadTr(LoopTr):
    """LoopTr + the constructs of loadtracer.py's closures"""

    def __init__(self, fn, func, tables, ns, ltt, counters=()):
        super().__init__(fn, func, tables, ns)
        self.ltt = ltt                   # loadtracer's own module tables (they shadow the simulator's of the same name)
        self.counters = tuple(counters)  # `self.<name>` integer attributes that are only incremented: locals of the result
        self.partial = False             # the function can raise IndexError: result `Option`, `none` = IndexError
        self.acc = None                  # name of the variable holding the matched `Accelerator` (fields: ACC_FIELDS)
        self.state = False               # `state[k]` / `self.state[k]` is the tracer state `ts : LoadTape.TS`

    def lv(self, name):
        return lname(name) if name not in ('pc',) else name

    # ---- discovery: allow the pair assignment and the counters --------------------------------------------------------
    def discover(self, body):
        for st in body:
            for n in ast.walk(st):
                if isinstance(n, (ast.Assign, ast.AugAssign)):
                    targets = n.targets if isinstance(n, ast.Assign) else [n.target]
                    for t in targets:
                        if isinstance(t, ast.Name):
                            if t.id in self.params:
                                raise self.err(f'assignment to parameter {t.id}', n)
                            if t.id not in self.locals:
                                self.locals[t.id] = None
                        elif isinstance(t, ast.Tuple):
                            if not all(isinstance(e, ast.Subscript) for e in t.elts):
                                raise self.err('tuple assignment to something other than subscripts', n)

    def counter_of(self, node):
        if isinstance(node, ast.Attribute) and isinstance(node.value, ast.Name) and node.value.id == 'self' and node.attr in self.counters:
            return node.attr
        return None

    def lt_lookup(self, node):
        """`T[i]..` on one of loadtracer's module tables -> (kind, text) or None"""
        base, idx = py2lean.subscript_chain(node)
        if not (isinstance(base, ast.Name) and base.id in self.ltt and base.id not in self.locals and base.id not in self.params):
            return None
        meta = self.ltt[base.id]
        n = len(meta['dims'])
        if any(isinstance(i, ast.Slice) for i in idx) or len(idx) < n:
            raise self.err(f'table {base.id} sliced / partially indexed', node)
        args = ' '.join(self.as_int(i) for i in idx[:n])
        call = f'(PyLoad.Tbl.{base.id} {args})'
        if len(idx) == n:
            return ('pair' if meta['leaf'] == 'pair' else 'int'), call
        if len(idx) == n + 1 and meta['leaf'] == 'pair' and isinstance(idx[n], ast.Constant) and idx[n].value in (0, 1):
            return 'int', f'{call}.{idx[n].value + 1}'
        raise self.err(f'table {base.id} over-indexed', node)

    def acc_field(self, node):
        if (self.acc and isinstance(node, ast.Attribute) and isinstance(node.value, ast.Name) and node.value.id == self.acc
                and self.acc not in self.locals):
            if node.attr == 'hits':
                return 'hits'
            if node.attr not in ACC_FIELDS:
                raise self.err(f'{self.acc}.{node.attr}', node)
            return f'{self.acc}.{ACC_FIELDS[node.attr]}'
        return None

    def state_field(self, node):
        if not (self.state and isinstance(node, ast.Subscript)):
            return None
        b = node.value
        if (isinstance(b, ast.Name) and b.id == 'state' and 'state' not in self.locals) or ast.unparse(b) == 'self.state':
            i = node.slice
            if not (isinstance(i, ast.Constant) and isinstance(i.value, int) and 0 <= i.value < len(STATE_FIELDS)):
                raise self.err('state[] with a non-literal index', node)
            return STATE_FIELDS[i.value]
        return None

    def reg_by_acc(self, node):
        """`registers[acc.<field>]` -> lean index text or None"""
        if (isinstance(node, ast.Subscript) and isinstance(node.value, ast.Name) and node.value.id == 'registers' and 'registers' in self.aliases):
            return self.acc_field(node.slice)
        return None

    def expr(self, node):
        c = self.counter_of(node)
        if c is not None:
            return 'int', self.lv(c)
        a = self.acc_field(node)
        if a is not None:
            return 'int', a
        f = self.state_field(node)
        if f is not None:
            return 'int', f'ts.{f}'
        r = self.reg_by_acc(node)
        if r is not None:
            # the index is a field of the table entry: a register number 0..23 for every entry (hypothesis of the theorems)
            return 'int', f'(rget st.reg {r})'
        if isinstance(node, ast.Subscript):
            r = self.lt_lookup(node)
            if r is not None:
                return r
        if isinstance(node, ast.Call) and isinstance(node.func, ast.Name) and node.func.id in ('min', 'max') and len(node.args) == 2 \
                and not node.keywords and node.func.id not in self.locals and node.func.id not in self.params:
            return 'int', f'({node.func.id} {self.as_int(node.args[0])} {self.as_int(node.args[1])})'
        if isinstance(node, ast.BinOp) and isinstance(node.op, ast.FloorDiv) and self.acc_field(node.right) is not None:
            # `// acc.loop_time`: Python floor division; Lean's `/` on Int is the same function for a positive divisor (every table
            # entry has loop_time > 0: hypothesis of the theorems; a zero divisor raises ZeroDivisionError in Python)
            return 'int', f'({self.as_int(node.left)} / {self.acc_field(node.right)})'
        return super().expr(node)

    def value(self, v, ind):
        if isinstance(v, ast.Call) and isinstance(v.func, ast.Name) and v.func.id in ('min', 'max'):
            return self.expr(v)
        ty, text = super().value(v, ind) if not isinstance(v, ast.Compare) or not self.acc else self.expr(v)
        if self.acc and ty in ('prop',):
            # a Python bool is an int (True == 1): the local may also receive ints (`ffwd`)
            return 'int', f'(PyInt.p2i {text})'
        return ty, text

    def ret_text(self, val=None, done='true'):
        r = super().ret_text(val, done)
        if self.partial:
            assert r.startswith('return ')
            return 'return some ' + r[len('return '):]
        return r

    def assign_to(self, t, ty, text, ind, node):
        f = self.state_field(t)
        if f is not None:
            if ty != 'int':
                raise self.err('non-int stored in state[]', node)
            self.emit(ind, f'ts := {{ ts with {f} := {text} }}')
            return
        r = self.reg_by_acc(t)
        if r is not None:
            self.emit(ind, f'st := {{ st with reg := rset st.reg {r} {text} }}')
            return
        a = self.acc_field(t)
        if a == 'hits':
            self.emit(ind, f'hits := {text}')
            return
        return super().assign_to(t, ty, text, ind, node)

    def stmt(self, st, ind):
        self.cur_ind = ind
        if isinstance(st, ast.AugAssign) and self.counter_of(st.target) is not None:
            c = self.counter_of(st.target)
            if not isinstance(st.op, ast.Add):
                raise self.err('counter updated by something other than +=', st)
            self.emit(ind, f'{self.lv(c)} := ({self.lv(c)} + {self.as_int(st.value)})')
            return
        if isinstance(st, ast.AugAssign) and self.acc_field(st.target) == 'hits':
            if not isinstance(st.op, ast.Add):
                raise self.err('acc.hits updated by something other than +=', st)
            self.emit(ind, f'hits := (hits + {self.as_int(st.value)})')
            return
        if isinstance(st, ast.Return) and st.value is None and not self.in_loop and self.fn.ret == 'locals':
            self.emit(ind, self.ret_text())
            return
        if isinstance(st, ast.Assign) and len(st.targets) == 1 and isinstance(st.targets[0], ast.Tuple):
            t = st.targets[0]
            r = self.lt_lookup(st.value) if isinstance(st.value, ast.Subscript) else None
            if r is None or r[0] != 'pair' or len(t.elts) != 2:
                raise self.err('tuple assignment whose value is not a (value, flags) table row', st)
            tmp = self.fresh('pr')
            if self.partial:
                # Python sequence indexing: IndexError outside -n <= i < n, negative indices count from the end
                base, idx = py2lean.subscript_chain(st.value)
                meta = self.ltt[base.id]
                if len(meta['dims']) != 1:
                    raise self.err('bounds-checked lookup in a table with more than one dimension', st)
                ix = self.fresh('ix')
                self.emit(ind, f'let some {ix} := PyLoad.pyIdx {meta["dims"][0]} {self.as_int(idx[0])} | return none')
                self.emit(ind, f'let {tmp} := (PyLoad.Tbl.{base.id} {ix})')
            else:
                self.emit(ind, f'let {tmp} := {r[1]}')      # the right-hand side is evaluated first
            self.assign_to(t.elts[0], 'int', f'{tmp}.1', ind, st)
            self.assign_to(t.elts[1], 'int', f'{tmp}.2', ind, st)
            return
        return super().stmt(st, ind)


def fn_dec_a():
    f = Fn('dec_a_func', [('dec_a_jr', 'int'), ('dec_a_jp', 'int')], 'locals', '_root_.Sim', 'PyLoop.Sim')
    return f


def dec_a_core(repo):
    """-> (method node, statements of the closure `func`)"""
    m = method(repo, LT, 'LoadTracer', 'dec_a')
    if m is None:
        raise Unsupported(f'{LT}: LoadTracer.dec_a not found')
    if [a.arg for a in m.args.args] != ['self', 'dec_a_jr', 'dec_a_jp'] or m.args.defaults:
        raise Unsupported(f'{LT}: LoadTracer.dec_a parameters {[a.arg for a in m.args.args]}')
    body = [st for st in m.body if not (isinstance(st, ast.Expr) and isinstance(st.value, ast.Constant))]
    texts = [ast.unparse(st) for st in body]
    n = len(DEC_A_PROLOGUE)
    if texts[:n] != DEC_A_PROLOGUE or len(body) != n + 2 or not isinstance(body[n], ast.FunctionDef) or texts[n + 1] != 'return func':
        raise Unsupported(f'{LT}: LoadTracer.dec_a is not `registers = ...; memory = ...; def func(): ...; return func`')
    f = body[n]
    if f.name != 'func' or f.args.args or f.args.vararg or f.args.kwarg or f.decorator_list:
        raise Unsupported(f'{LT}: LoadTracer.dec_a: the closure is not `def func():`')
    init = method(repo, LT, 'LoadTracer', '__init__')
    if init is None or [ast.unparse(st) for st in init.body].count(DEC_A_INSTALL) != 1:
        raise Unsupported(f'{LT}: LoadTracer.__init__: the statement that installs dec_a in opcodes[0x3D] changed')
    return m, list(f.body)


# ---- `_read_port.func`: the fast-forward core ------------------------------------------------------------------------------
READ_PORT_PROLOGUE = ['in_min_addr = self.in_min_addr', 'state = self.state', 'edges = self.edges', 'blocks = self.blocks', 'max_index = self.max_index',
                      'accelerators = list(self.accelerators)', 'memory = self.simulator.memory']
FFWD_GUARD = 'state[4] and registers[26] == 0 and (index < state[3] - 1)'
FFWD_MATCH = 'memory[pc - acc.c0:pc + acc.c1] == acc.code'
FFWD_TAIL = ['if i:\n    accelerators.remove(acc)\n    accelerators.insert(0, acc)', 'break']


def fn_ffwd():
    f = Fn('read_port_ffwd', [], 'locals', '_root_.Sim', 'PyLoop.Sim')
    return f


def ffwd_core(repo):
    """`LoadTracer._read_port`: -> (method, the statements executed for the accelerator whose signature matched, up to the move-to-front)"""
    m = method(repo, LT, 'LoadTracer', '_read_port')
    if m is None:
        raise Unsupported(f'{LT}: LoadTracer._read_port not found')
    body = list(m.body)
    texts = [ast.unparse(st) for st in body]
    n = len(READ_PORT_PROLOGUE)
    if texts[:n] != READ_PORT_PROLOGUE or len(body) != n + 2 or not isinstance(body[n], ast.FunctionDef) or texts[n + 1] != 'return func':
        raise Unsupported(f'{LT}: LoadTracer._read_port is not `<aliases>; def func(registers, port): ...; return func`')
    f = body[n]
    if f.name != 'func' or [a.arg for a in f.args.args] != ['registers', 'port']:
        raise Unsupported(f'{LT}: LoadTracer._read_port: the closure is not `def func(registers, port):`')
    guards = [x for x in ast.walk(f) if isinstance(x, ast.If) and ast.unparse(x.test) == FFWD_GUARD]
    if len(guards) != 1:
        raise Unsupported(f'{LT}: _read_port: `elif {FFWD_GUARD}:` not found exactly once')
    g = guards[0].body
    if not (len(g) == 2 and ast.unparse(g[0]) == 'loops = 0' and isinstance(g[1], ast.For) and ast.unparse(g[1].target) == '(i, acc)'
            and ast.unparse(g[1].iter) == 'enumerate(accelerators)' and [ast.unparse(x) for x in g[1].orelse] == ['self.tsl_misses += 1']
            and len(g[1].body) == 1 and isinstance(g[1].body[0], ast.If) and ast.unparse(g[1].body[0].test) == FFWD_MATCH
            and not g[1].body[0].orelse):
        raise Unsupported(f'{LT}: _read_port: the accelerator search is not `loops = 0; for i, acc in enumerate(accelerators): '
                          f'if {FFWD_MATCH}: ... else: self.tsl_misses += 1`')
    blk = g[1].body[0].body
    if [ast.unparse(x) for x in blk[-2:]] != FFWD_TAIL:
        raise Unsupported(f'{LT}: _read_port: the matched-accelerator block does not end with the move-to-front and `break`')
    # the Accelerator class: attribute names -> constructor arguments
    with open(os.path.join(repo, 'skoolkit/loadsample.py')) as fh:
        mod = ast.parse(fh.read())
    cls = py2lean.find_class(mod, 'Accelerator')
    init = [x for x in cls.body if isinstance(x, ast.FunctionDef) and x.name == '__init__']
    if len(init) != 1 or [ast.unparse(x) for x in init[0].body] != ACC_INIT:
        raise Unsupported('skoolkit/loadsample.py: Accelerator.__init__ changed (the attributes of the model rely on its exact text)')
    return m, blk[:-2]


HEADER = ['import SkoolVerif.Gen.PyLoops', 'import SkoolVerif.Model.LoadTape', 'set_option linter.unusedVariables false', 'open Z80', '']


def gen(repo):
    """-> text of Gen/PyLoad.lean"""
    pyloop2lean.check_reg_names(repo)
    tables, _, _ = py2lean.collect_tables(repo)
    ltt, ltdefs = lt_tables(repo)
    out = ['-- GENERATED by translate/pyload2lean.py from skoolkit/loadtracer.py (DEC/DEC0/INC0, LoadTracer.dec_a). Do not edit.'] + HEADER
    out.append('namespace PyLoad.Tbl\n')
    for d in ltdefs:
        out += [d, '']
    out.append('end PyLoad.Tbl\n')
    out.append('namespace PyLoad\n')
    out.append('/-- Python sequence indexing `seq[i]` for a sequence of length `n`: the position read (negative indices count from the end), '
               '`none` = IndexError -/\ndef pyIdx (n i : Int) : Option Int :=\n  if 0 ≤ i ∧ i < n then some i else if -n ≤ i ∧ i < 0 then some (i + n) else none\n')
    m, core = dec_a_core(repo)
    tr = LoadTr(fn_dec_a(), m, tables, 'PyLoad', ltt, DEC_A_COUNTERS)
    out.append(tr.translate(core=core, ambient=('registers', 'memory'), initial=tuple((c, 'int') for c in DEC_A_COUNTERS)) + '\n')
    m, core = ffwd_core(repo)
    tr = LoadTr(fn_ffwd(), m, tables, 'PyLoad', ltt)
    tr.partial, tr.acc, tr.state = True, 'acc', True
    text = tr.translate(core=core, ambient=('registers', 'memory'),
                        initial=(('ts', 'ts'), ('index', 'int'), ('loops', 'int'), ('hits', 'int')))
    text = text.replace('(cfg : Cfg) (ts0', '(cfg : Cfg) (acc : LoadTape.Accel) (ts0')
    text = re.sub(r'\(s : St μ\) : (St μ × Read_port_ffwdLocals) := Id.run do', r'(s : St μ) : Option (\1) := Id.run do', text)
    out.append(text + '\n')
    out.append('end PyLoad\n')
    return '\n'.join(out)


if __name__ == '__main__':
    repo = sys.argv[1] if len(sys.argv) > 1 else '/repo'
    outdir = sys.argv[2] if len(sys.argv) > 2 else os.path.join(os.path.dirname(os.path.abspath(__file__)), '..', 'lean', 'SkoolVerif', 'Gen')
    open(os.path.join(outdir, 'PyLoad.lean'), 'w').write(gen(repo))
    print('generated PyLoad.lean')
