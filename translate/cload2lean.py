#!/usr/bin/env python3
"""The LOAD machinery of c/csimulator.c (plain build: the accelerators are compiled only without CONTENTION) -> Lean 4,
`Gen/CLoad/*.lean`, namespace `CSimH.Load`.  Built on the C front end and the C-integer emitter of `translate/c2lean.py`
(same type model, same macros checked verbatim) and on the loop parser of `translate/cloop2lean.py`; this module adds what the
load functions need and nothing else.  Anything outside raises `Unsupported` (= translator break).

  dec_a          `static void dec_a(CSimulatorObject* self, void* lookup, int args[])`: the one opcode handler that c2lean.py skips (it has
                 no Python closure in simulator.py and it mutates `args[]`).  `args[k]` (k a literal) is a mutable `int` cell `a<k>` of
                 the structure `DecAArgs` (hit counters 0..2, option flags 3..4); `args[k]++;` is `a<k> := CInt.i32 (a<k> + 1)`;
                 `return;` is an early return.  Result: `St μ × DecAArgs`.  How the handler is installed is checked by exact text
                 (INSTALL_TEXT: `args[3] = accel_dec_a & 1`, `args[4] = accel_dec_a & 2`, `self->opcodes[0x3D] = &dec_a_accelerator`).
  read_port      the tape-sampling fast-forward of `read_port`: the block guarded by `if (match) {` inside the accelerator search
                 (the CORE; the search loop around it, the signature comparison and the swap to the front are checked by exact text):
                 `acc->f` is the field `f` of the matched `tsl_accelerator` (types from the struct, checked verbatim), `self->tracer_state[k]`
                 the tracer state cell k (`unsigned long long`), `INC[0][i]` / `DEC[0][i]` the simulator tables, `index`/`loops`/`tsl_miss`
                 and `acc->hits` locals of the core.  Result: the machine state and the locals.
  advance_tape   `static int advance_tape(CSimulatorObject* self, unsigned long long tstates, unsigned* progress)`: the tracer state is
                 an array of `unsigned long long` (`self->tracer_state[k]`), the tape `self->tape_edges[i]` / `self->max_index`; the inner
                 `while (index < self->max_index) { if (...) { break; } index += 1; }` becomes a fuel-bounded iteration; the calls
                 `stop_tape` / `next_block` into the Python tracer and the progress indicator are recognised by exact text and become
                 the *requests* `.stopTape` / `.nextBlock` returned to the caller (the Python methods are translated by
                 translate/pyload2lean.py).
"""
import os
import re
import sys

sys.path.insert(0, os.path.dirname(os.path.abspath(__file__)))
import c2lean
import cloop2lean
import py2lean
from c2lean import Unsupported, Node, Tok, Val, WRAP, RECORD, norm_ws, is_name, lname
from cloop2lean import ctext, LParser

DEC_A_HEADER = 'static void dec_a(CSimulatorObject* self, void* lookup, int args[]) {'
# how the handler gets its arguments and its slot (CSimulator_load), whitespace-normalised exact text
INSTALL_TEXT = [
    'OpcodeFunction dec_a_accelerator = {dec_a, NULL, {0}};',
    'if (accel_dec_a) { dec_a_accelerator.args[3] = accel_dec_a & 1; dec_a_accelerator.args[4] = accel_dec_a & 2; '
    'self->opcodes[0x3D] = &dec_a_accelerator; }',
    'for (int i = 0; i < 256; i++) { self->opcodes[i] = &opcodes[i]; }',
]
OPCODE_FUNCTION_STRUCT = 'typedef struct { opcode_exec func; void* lookup; int args[7]; } OpcodeFunction;'


class DecATr(c2lean.FuncTr):
    """`dec_a`: c2lean's handler emitter + mutable `args[k]`, `args[k]++;` and `return;`"""

    def __init__(self, consts, ctables, tables_meta, enum_kind):
        super().__init__('dec_a', consts, ctables, None, tables_meta, False, [], enum_kind)
        self.arg_idx = set()

    def arg_name(self, k, node):
        if not 0 <= k < 7:
            raise self.err(node, f'args[{k}] outside `int args[7]`')
        self.arg_idx.add(k)
        return f'a{k}'

    def arg_value(self, k, node):
        return Val('int', self.arg_name(k, node))

    def args_record(self):
        return '⟪ARGS⟫'

    def stmt(self, st, ind):
        if st.kind == 'return':
            if st.value is not None:
                raise self.err(st, '`return <value>` in a void handler')
            self.emit(ind, f'return ({RECORD}, {self.args_record()})')
            return
        if st.kind == 'expr' and st.e.kind == 'postinc':
            t = st.e.a
            if not (st.e.op == '++' and t.kind == 'index' and is_name(t.a, 'args') and t.i.kind == 'num' and self.scope.lookup('args') is None):
                raise self.err(st, f'`{ctext(st)}`: only `args[k]++;` is supported')
            a = self.arg_name(t.i.value, st)
            self.emit(ind, f'{a} := (CInt.i32 ({a} + 1))')
            return
        return super().stmt(st, ind)


def c_source(repo, contention=False):
    with open(os.path.join(repo, 'c/csimulator.c')) as f:
        raw = f.read()
    text, macros = c2lean.preprocess(raw, {'CONTENTION'} if contention else set())
    c2lean.check_macros(macros, contention)
    c2lean.check_fixed_text(text, contention)
    return raw, text, macros


def function_body(text, header):
    at = text.find(header)
    if at < 0 or text.find(header, at + 1) >= 0:
        raise Unsupported(f'c/csimulator.c: `{header}` not found exactly once')
    start = at + len(header) - 1
    end = c2lean.function_text(text, start)
    return start, end


HEAD = ['import SkoolVerif.Prelude.Machine', 'import SkoolVerif.Prelude.CInt', 'import SkoolVerif.Prelude.LoopAttrs',
        'import SkoolVerif.Gen.SimTblEnums', 'set_option linter.unusedVariables false', 'open Z80', '', 'namespace CSimH.Load', '']


def gen_dec_a(repo):
    """-> text of Gen/CLoad/dec_a.lean"""
    raw, text, macros = c_source(repo)
    _, ctext_cont, _ = c_source(repo, True)
    if DEC_A_HEADER in ctext_cont:
        raise Unsupported('c/csimulator.c: dec_a is compiled in the -DCONTENTION build (the model has it in the plain build only)')
    flat = norm_ws(text)
    for t in INSTALL_TEXT + [OPCODE_FUNCTION_STRUCT]:
        if flat.count(norm_ws(t)) != 1:
            raise Unsupported(f'c/csimulator.c: `{t[:90]}` not found exactly once (how dec_a is installed / the shape of a dispatch row)')
    consts, ctables = c2lean.parse_globals(text)
    tables_meta, _, _ = py2lean.collect_tables(repo)
    _, _, stmeta = py2lean.gen_simtables(repo)
    enum_kind = {n: k for k, names in stmeta['kinds'].items() for n in names}
    start, end = function_body(text, DEC_A_HEADER)
    toks = c2lean.expand(c2lean.tokenize(text[start:end], text.count('\n', 0, start) + 1), macros)
    p = c2lean.Parser(toks + [Tok('eof', '', toks[-1].line)], 'dec_a')
    body = p.parse_block()
    if p.peek().kind != 'eof':
        raise Unsupported('c/csimulator.c: dec_a: trailing tokens')
    ft = DecATr(consts, ctables, tables_meta, enum_kind)
    ft.block(body, 1, new_scope=False)
    idx = sorted(ft.arg_idx)
    if idx != list(range(len(idx))) or not idx:
        raise Unsupported(f'c/csimulator.c: dec_a uses args[{idx}]: not a contiguous range from 0')
    n = len(idx)
    rec = '{ ' + ', '.join(f'a{k} := a{k}' for k in idx) + ' }'
    lines = ['/-- `args[0..]` of the dispatch row `dec_a_accelerator` (C `int` cells; 0..2 are counters the handler increments, 3..4 the option flags) -/',
             'structure DecAArgs where'] + [f'  a{k} : Int' for k in idx] + ['  deriving Repr, DecidableEq', '']
    lines += ['/-- `dec_a` of c/csimulator.c: the replacement for `opcodes[0x3D]` while a tape is loaded -/',
              '@[cloop_def] def dec_a {μ : Type} [MemLike μ] (cfg : Cfg) (args : DecAArgs) (s : St μ) : St μ × DecAArgs := Id.run do',
              '  let mut regs := s.reg', '  let mut memv := s.mem']
    for v, fl in c2lean.FIELD.items():
        lines.append(f'  let mut {v} := s.{fl}')
    lines += ['  let mut ins := s.ins', '  let mut outs := s.outs', '  let mut inLog := s.inLog']
    lines += [f'  let mut a{k} : Int := args.a{k}' for k in idx]
    lines += ft.lines
    lines.append(f'  return ({RECORD}, ⟪ARGS⟫)')
    out = ['-- GENERATED by translate/cload2lean.py from c/csimulator.c (plain build): dec_a. Do not edit.'] + HEAD + lines
    return ('\n'.join(out) + '\n\nend CSimH.Load\n').replace('⟪ARGS⟫', rec)


# --------------------------------------------------------------------------------------------
# read_port: the fast-forward core
# --------------------------------------------------------------------------------------------
READ_PORT_HEADER = 'static unsigned read_port(CSimulatorObject* self, unsigned port) {'
TSL_STRUCT = ('typedef struct { PyObject* name; unsigned* code; int c0; int c1; int counter; unsigned inc; unsigned loop_time; '
              'unsigned loop_r_inc; int ear; unsigned ear_mask; unsigned polarity; unsigned hits; } tsl_accelerator;')
# C field of tsl_accelerator -> (C type, field of LoadTape.Accel)
ACC_FIELDS = {'c0': ('int', 'c0'), 'c1': ('int', 'c1'), 'counter': ('int', 'counter'), 'inc': ('unsigned', 'inc'),
              'loop_time': ('unsigned', 'loopTime'), 'loop_r_inc': ('unsigned', 'loopRInc'), 'ear': ('int', 'ear'),
              'ear_mask': ('unsigned', 'earMask'), 'polarity': ('unsigned', 'polarity')}
# self->tracer_state[k] (unsigned long long cells; `LoadTracer.state`) -> field of LoadTape.TS
STATE_FIELDS = ['nextEdge', 'index', 'ended', 'blockEnd', 'running', 'custom', 'endTime', 'announce', 'nextInt', 'lastFrame']
CORE_MARK = '⟪CORE⟫'
# read_port with the statements of the `if (match) { ... }` block before the move-to-front replaced by CORE_MARK: exact text
# (whitespace-normalised, comments stripped).  This is everything the hand model LoadTape.readPort / sigMatchC describes around the core.
READ_PORT_SHELL = (
    'static unsigned read_port(CSimulatorObject* self, unsigned port) { unsigned long long* reg = self->registers; '
    'if ((port & 0xFF) == 0xFE) { unsigned pc = REG(PC); '
    'if (pc >= self->in_min_addr || (pc >= 0x0562 && pc <= 0x05F1 && self->out7ffd & 0x10)) { self->tracer_state[5] = 1; '
    'unsigned long long index = self->tracer_state[1]; if (self->tracer_state[7] && !self->tracer_state[2]) { self->tracer_state[7] = 0; '
    'self->tracer_state[4] = 1; TIME = self->tape_edges[index]; '
    'self->tracer_state[8] = ((TIME + self->frame_duration - self->int_active) / self->frame_duration) * self->frame_duration; '
    'self->tracer_state[9] = 0; PyObject* blocks_obj = PyObject_GetAttrString(self->tracer, "blocks"); '
    'PyObject* block_index_obj = PyObject_GetAttrString(self->tracer, "block_index"); '
    'PyObject* block = PyList_GetItem(blocks_obj, PyLong_AsLong(block_index_obj)); PyObject* data = PyObject_GetAttrString(block, "data"); '
    'Py_ssize_t len = PyBytes_Check(data) ? PyBytes_Size(data) : 0; Py_XDECREF(data); Py_XDECREF(block_index_obj); Py_XDECREF(blocks_obj); '
    'if (len) { PyObject* s = PyUnicode_FromFormat("Data (%u bytes)", len); if (s) { Py_XDECREF(PyObject_CallOneArg(self->write_line, s)); '
    'Py_DECREF(s); } } } else if (index == self->max_index) { Py_XDECREF(PyObject_CallMethod(self->tracer, "stop_tape", "(K)", TIME)); } '
    'else if (self->accelerators && self->tracer_state[4] && REG(IFF) == 0 && index < self->tracer_state[3] - 1) { byte* mem = self->memory; '
    'unsigned loops = 0; unsigned tsl_miss = 1; for (unsigned k = 0; k < self->num_accs; k++) { tsl_accelerator* acc = self->accelerators[k]; '
    'int match = 1; int i = 0; for (int j = 0 - acc->c0; j < acc->c1; j++) { unsigned c = acc->code[i++]; '
    'if (c < 256 && c != PEEK(ADDR(pc + j))) { match = 0; break; } } if (match) { ' + CORE_MARK + ' if (k) { '
    'tsl_accelerator* first = self->accelerators[0]; self->accelerators[0] = acc; self->accelerators[k] = first; } break; } } '
    'self->tsl_misses += tsl_miss; } return (index & 1) ? 0xFF : 0xBF; } } else if ((port & 0xC002) == 0xC000) { '
    'PyObject* outfffd_obj = PyObject_GetAttrString(self->tracer, "outfffd"); unsigned ay_reg = PyLong_AsLong(outfffd_obj); '
    'Py_XDECREF(outfffd_obj); if (ay_reg == 14 && REG(PC) == 0x08B2) { return 0; } if (ay_reg < 16) { '
    'PyObject* ay = PyObject_GetAttrString(self->tracer, "ay"); PyObject* value = PyList_GetItem(ay, ay_reg); Py_XDECREF(ay); '
    'return PyLong_AsLong(value); } } return 0xFF; }')


class FfwdTr(c2lean.FuncTr):
    """the fast-forward core of `read_port`: c2lean's handler emitter + `acc->f`, `self->tracer_state[k]`, the locals of the enclosing
    block (`index`, `loops`, `tsl_miss`, `pc`), `x++;`, `int ffwd;`, `byte* values = c ? T1[i] : T2[j];`"""
    LOCALS = [('index', 'ull'), ('loops', 'unsigned'), ('tsl_miss', 'unsigned'), ('hits', 'unsigned')]

    def __init__(self, consts, ctables, tables_meta, enum_kind):
        super().__init__('read_port', consts, ctables, None, tables_meta, False, [], enum_kind)
        self.used_names |= {'acc', 'ts', 'l'}
        for n, ty in self.LOCALS + [('pc', 'unsigned')]:
            self.scope.vars[n] = dict(lean=n, ty=ty)
            self.used_names.add(n)
        self.scope.vars['reg'] = dict(lean='regs', ty='regptr')
        self.scope.vars['mem'] = dict(lean='memv', ty='memptr')
        self.have_reg = self.have_mem = True

    def expr(self, node):
        if node.kind == 'member' and is_name(node.a, 'acc') and self.scope.lookup('acc') is None:
            if node.f == 'hits':
                return Val('unsigned', 'hits', nn=True)
            if node.f not in ACC_FIELDS:
                raise self.err(node, f'acc->{node.f}')
            ty, lf = ACC_FIELDS[node.f]
            return Val(ty, f'acc.{lf}', nn=ty == 'unsigned')
        if node.kind == 'index' and node.a.kind == 'member' and node.a.f == 'tracer_state' and is_name(node.a.a, 'self'):
            if node.i.kind != 'num' or not 0 <= node.i.value < len(STATE_FIELDS):
                raise self.err(node, 'self->tracer_state[] with a non-literal index')
            return Val('ull', f'ts.{STATE_FIELDS[node.i.value]}', nn=True)
        return super().expr(node)

    def stmt(self, st, ind):
        if st.kind == 'expr' and st.e.kind == 'postinc' and st.e.op == '++':
            t = st.e.a
            if t.kind == 'member' and is_name(t.a, 'acc') and t.f == 'hits':
                self.emit(ind, 'hits := (CInt.u32 (hits + 1))')
                return
            if t.kind == 'name':
                v = self.scope.lookup(t.id)
                if v is not None and v['ty'] in WRAP:
                    self.emit(ind, f'{v["lean"]} := ({WRAP[v["ty"]]} ({v["lean"]} + 1))')
                    return
            raise self.err(st, f'`{ctext(st)}`')
        return super().stmt(st, ind)

    def decl(self, st, ind):
        if st.ty in WRAP and st.dims is None and st.init is None:
            # C leaves the value indeterminate; reading it before a write is undefined behaviour.  0 stands in.
            ln = self.declare(st, st.name, st.ty)
            self.emit(ind, f'let mut {ln} : Int := 0')
            return
        if st.ty == 'byte*' and st.init is not None and st.init.kind == 'cond':
            a = self.table_lookup(st.init.a) if st.init.a.kind == 'index' else None
            b = self.table_lookup(st.init.b) if st.init.b.kind == 'index' else None
            if not (isinstance(a, tuple) and isinstance(b, tuple) and a[0] == b[0] == 'pairref'):
                raise self.err(st, '`byte* x = c ? A : B` whose branches are not (value, flags) rows')
            c = self.as_bool(self.expr(st.init.c), st)
            ln = self.declare(st, st.name, 'pair')
            self.emit(ind, f'let {ln} := (if {c} then {a[1]} else {b[1]})')
            return
        return super().decl(st, ind)


def gen_read_port(repo):
    """-> text of Gen/CLoad/read_port.lean"""
    raw, text, macros = c_source(repo)
    flat = norm_ws(text)
    if flat.count(norm_ws(TSL_STRUCT)) != 1:
        raise Unsupported('c/csimulator.c: struct tsl_accelerator changed (the field types of the model rely on its exact text)')
    for f in ('unsigned long long* tracer_state;', 'unsigned long long* tape_edges;', 'unsigned long long max_index;', 'unsigned in_min_addr;'):
        if f' {f} ' not in flat:
            raise Unsupported(f'c/csimulator.c: struct field `{f}` not found')
    start, end = function_body(text, READ_PORT_HEADER)
    at = text.find(READ_PORT_HEADER)
    fn_text = text[at:end]
    k = fn_text.find('if (match) {')
    if k < 0 or fn_text.find('if (match) {', k + 1) >= 0:
        raise Unsupported('c/csimulator.c: read_port: `if (match) {` not found exactly once')
    b0 = k + len('if (match) ')
    b1 = c2lean.function_text(fn_text, b0)
    line0 = text.count('\n', 0, at + b0) + 1
    toks = c2lean.expand(c2lean.tokenize(fn_text[b0:b1], line0), macros)
    p = LParser(toks + [Tok('eof', '', toks[-1].line)], 'read_port')
    blk = p.parse_block()
    body = blk.body
    if len(body) < 3 or body[-1].kind != 'break' or body[-2].kind != 'if' or ctext(body[-2].cond) != 'k':
        raise Unsupported('c/csimulator.c: read_port: the `if (match)` block does not end with `if (k) { ... } break;`')
    core = body[:-2]
    # the shell: the function text with the core's source text replaced by the mark
    tail_at = fn_text.rfind('if (k) {', b0, b1)
    shell = norm_ws(fn_text[:b0 + 1] + ' ' + CORE_MARK + ' ' + fn_text[tail_at:])
    if shell != norm_ws(READ_PORT_SHELL):
        a, b = shell, norm_ws(READ_PORT_SHELL)
        i = next((j for j in range(min(len(a), len(b))) if a[j] != b[j]), min(len(a), len(b)))
        raise Unsupported(f'c/csimulator.c: read_port changed outside the fast-forward core, near `{a[max(0, i - 30):i + 50]}`')
    consts, ctables = c2lean.parse_globals(text)
    tables_meta, _, _ = py2lean.collect_tables(repo)
    _, _, stmeta = py2lean.gen_simtables(repo)
    enum_kind = {n: k for k, names in stmeta['kinds'].items() for n in names}
    ft = FfwdTr(consts, ctables, tables_meta, enum_kind)
    ft.block(Node('block', blk.line, body=core), 1, new_scope=False)
    rec = '{ ' + ', '.join(f'{n} := {n}' for n, _ in FfwdTr.LOCALS) + ' }'
    lines = ['/-- the locals of the accelerator search of `read_port` that the matched-accelerator block reads or writes (`hits` is `acc->hits`) -/',
             'structure FfwdLocals where'] + [f'  {n} : Int' for n, _ in FfwdTr.LOCALS] + ['  deriving Repr, DecidableEq', '']
    lines += ['/-- `read_port` of c/csimulator.c, the block executed for the accelerator `acc` whose signature matched (up to the move-to-front): '
              'the tape-sampling fast-forward.  `ts` = `self->tracer_state`, `pc` = the local `pc`. -/',
              '@[cloop_def] def read_port_ffwd {μ : Type} [MemLike μ] (cfg : Cfg) (acc : LoadTape.Accel) (ts : LoadTape.TS) (pc : Int) (l : FfwdLocals) (s : St μ) : St μ × FfwdLocals := Id.run do',
              '  let mut regs := s.reg', '  let mut memv := s.mem']
    for v, fl in c2lean.FIELD.items():
        lines.append(f'  let mut {v} := s.{fl}')
    lines += ['  let mut ins := s.ins', '  let mut outs := s.outs', '  let mut inLog := s.inLog']
    lines += [f'  let mut {n} : Int := l.{n}' for n, _ in FfwdTr.LOCALS]
    lines += ft.lines
    lines.append(f'  return ({RECORD}, {rec})')
    head = [h for h in HEAD]
    head.insert(4, 'import SkoolVerif.Model.LoadTape')
    out = ['-- GENERATED by translate/cload2lean.py from c/csimulator.c (plain build): read_port (fast-forward core). Do not edit.'] + head + lines
    return '\n'.join(out) + '\n\nend CSimH.Load\n'


def translate(repo):
    """-> {file name under Gen/: lean text}"""
    files = {'CLoad/dec_a.lean': gen_dec_a(repo), 'CLoad/read_port.lean': gen_read_port(repo)}
    return files


if __name__ == '__main__':
    repo = sys.argv[1] if len(sys.argv) > 1 else '/repo'
    outdir = sys.argv[2] if len(sys.argv) > 2 else os.path.join(os.path.dirname(os.path.abspath(__file__)), '..', 'lean', 'SkoolVerif', 'Gen')
    c2lean.write_files(outdir, translate(repo))
    print('generated CLoad')
