#!/usr/bin/env python3
"""c/csimulator.c handler bodies -> Lean 4: `Gen/CH/<handler>.lean` (plain build, namespace CSimH) and
`Gen/CCmioH/<handler>.lean` (-DCONTENTION, namespace CCmioH), one module per C function (the 72 opcode handlers
and `accept_interrupt`), `Gen/CArgs.lean` / `Gen/CCmioArgs.lean` (`cArgsOk`) and `Gen/CHandlers.lean` /
`Gen/CCmioHandlers.lean` (`execLeaf`: the dispatch of a table row to its handler).

A small C front end (preprocessor for the constructs the file uses, tokenizer, recursive-descent
parser) for exactly the C subset of the opcode handler functions
`static void <name>(CSimulatorObject* self, void* lookup, int args[])`, and an emitter that models C
integer semantics explicitly on Lean `Int`.  Anything outside the subset raises `Unsupported`: an
unknown construct is a broken tie between model and source, never silently skipped.

Trusted mapping (validated on every run by stepping the real C extension against the generated
definitions, `harness/cgencheck.py`):

  types      byte = unsigned char (8 bit), unsigned = 32 bit, int = 32 bit two's complement,
             unsigned long long = 64 bit, long = 64 bit (only for PyLong_AsLong results)
  promotion  byte op x -> int op x; int op unsigned -> unsigned; anything op ull -> ull
  + - *      `CInt.u32 (a + b)` / `CInt.i32 (a + b)` / `CInt.u64 (a + b)`: wrap after EVERY operation
             (signed overflow is undefined in ISO C; gcc -fwrapv, which the harness passes, and gcc in
             practice wrap: `CInt.i32`)
  & | ^      `PyInt.land/lor/xor` on the converted operands (two's complement on unbounded Int; the
             result of these three on two values of a C type is again a value of that type, so no wrap
             is emitted: `CInt.land_u32_closed` etc. in Proofs/CIntLemmas.lean)
  >>         unsigned operand, literal count: `PyInt.shr`;  <<, ~ : not used by the handlers -> rejected
  / %        unsigned/ull operands, or int operands that are promoted bytes / non-negative literals:
             Int `/`, `%` (all roundings agree on non-negative operands); other int operands:
             `Int.tdiv` / `Int.tmod` (C truncation)
  == < ...   Prop; used as a number: `PyInt.p2i` (C int 0/1)
  conversion to byte `CInt.u8`, to unsigned `CInt.u32`, to int `CInt.i32`, to ull `CInt.u64`; omitted
             only where the C standard guarantees value preservation from the TYPES alone (byte->int,
             byte->unsigned, byte/unsigned->ull, non-negative literal -> unsigned/ull)
  reg[k]     k one of the `static const int` register constants >= 24 (PC, T, IFF, IM, HALT, MEMPTR): the
             state field; otherwise `rget/rset regs k` (ull cells)
  PEEK/POKE  `mget`/`mset` on the `MemLike` memory (the macro's `mem ? ... : mem128[a/0x4000][a%0x4000]`
             split is what the instances Mem48/Mem128 model); PEEK is byte-typed
  OUT        `MemLike.portOut` (C keeps ONE copy of the last 0x7FFD value, `self->out7ffd`, which both
             selects the pages and holds the lock bit: the model identifies it with Mem128.o7ffd =
             Mem128.trOut7ffd)
  tables     `lookup` is the closure's main table parameter (`TblXn.get`), global tables `Tbl.<NAME>`;
             table cells are byte-typed (their range is a theorem: Proofs/TableRanges); the C tables
             themselves are filled by the init_* functions, which are NOT translated: they are tied to
             simtables.py by executing both (C handler results per slot against `Tbl.*`)
  CONTEND/CPATTERN  `self->contend(&t, &delay, self->out7ffd & 1, n, cpattern)` is `Contend.contend`
             (hand model of contend_48k/contend_128k, incl. the `tstates == 0` I/O entries which are
             `Contend.io_contention`); the T-state entries of a pattern must be integer literals
  tracers    the `if (self->read_port) ... else PyObject_Call(...)` block and the out_tracer call block are
             recognised as fixed idioms and become the input stream / output log of `St`
"""
import os
import re
import sys

sys.path.insert(0, os.path.dirname(os.path.abspath(__file__)))
import py2lean
from py2lean import Unsupported, lname

# --------------------------------------------------------------------------------------------
# macros the translation relies on: EXACT expected text (whitespace-normalised)
# --------------------------------------------------------------------------------------------
EXPECTED_MACROS = {
    'REG': (['r'], '((unsigned)reg[r])'),
    'LD': (['r', 'v'], 'reg[r] = v'),
    'PEEK': (['a'], '(mem ? mem[a] : self->mem128[(a) / 0x4000][(a) % 0x4000])'),
    'POKE': (['a', 'v'], 'if (mem) mem[a] = v; else self->mem128[(a) / 0x4000][(a) % 0x4000] = v'),
    'INC_R': (['i'], 'LD(R, (REG(R) & 0x80) + ((REG(R) + (i)) & 0x7F))'),
    'TIME': (None, 'reg[T]'),
    'ADDR': (['a'], '((a) & 0xFFFF)'),
    'INC_PC': (['i'], 'LD(PC, ADDR(REG(PC) + (i)))'),
    'OUT': (['p', 'v'], 'if (mem == NULL && (p & 0x8002) == 0 && (self->out7ffd & 0x20) == 0) out7ffd(self, v)'),
    # not used by the handlers: the row selection of the run loops, hand-modelled as `CSimH.leafOf`
    # (lean/SkoolVerif/Proofs/CVsPyStepDefs.lean) on the strength of this exact text
    'GET_OPCODE_FUNC': (['opcodes'], 'byte opcode = PEEK(pc); OpcodeFunction* opcode_func = opcodes[opcode]; if (!opcode_func->func) { '
                        'byte opcode2 = PEEK(ADDR(pc + 1)); switch (opcode) { case 0xCB: opcode_func = &after_CB[opcode2]; break; '
                        'case 0xED: opcode_func = &after_ED[opcode2]; break; '
                        'case 0xDD: opcode_func = opcode2 == 0xCB ? &after_DDCB[PEEK(ADDR(pc + 3))] : &after_DD[opcode2]; break; '
                        'case 0xFD: opcode_func = opcode2 == 0xCB ? &after_FDCB[PEEK(ADDR(pc + 3))] : &after_FD[opcode2]; break; '
                        'default: break; } }'),
}
EXPECTED_PLAIN = {'INC_T': (['i'], 'TIME += i')}
EXPECTED_CONT = {
    'INC_T': (['i'], 'TIME += i + delay'),
    'CONTEND': (None, 'unsigned t = TIME % self->frame_duration; unsigned delay = 0; if (self->t0 < t && t < self->t1)'),
    'CPATTERN': (['nargs', '...'], 'const unsigned cpattern[] = { __VA_ARGS__ }; '
                 'self->contend(&t, &delay, self->out7ffd & 1, nargs, cpattern)'),
}
# expanded textually (pure C); the others are primitives with the modelled meaning described above
EXPAND = {'REG', 'LD', 'INC_R', 'TIME', 'ADDR', 'INC_PC', 'INC_T', 'CONTEND'}
PRIMITIVE = {'PEEK', 'POKE', 'OUT', 'CPATTERN'}

# other source text the model depends on (checked verbatim, whitespace-normalised)
EXPECTED_OUT7FFD = ('static void out7ffd(CSimulatorObject* self, byte value) { '
                    'self->mem128[0] = self->roms[(value & 0x10) / 0x10]; '
                    'self->mem128[3] = self->banks[value & 0x07]; self->out7ffd = value; }')
EXPECTED_TYPEDEFS = ['typedef unsigned char byte;']
EXPECTED_STRUCT_FIELDS = ['unsigned long long* registers;', 'byte* memory;', 'byte* mem128[4];', 'unsigned frame_duration;',
                          'unsigned int_active;', 'byte out7ffd;']
EXPECTED_STRUCT_FIELDS_CONT = ['unsigned t0;', 'unsigned t1;', 'contend_f contend;']

SPECIAL = py2lean.SPECIAL       # 24..29 -> rPC ...
FIELD = py2lean.FIELD
TRACERS = ('in_a_n_tracer', 'in_r_c_tracer', 'ini_tracer', 'out_tracer')
CFG_FIELDS = {'frame_duration': 'unsigned', 'int_active': 'unsigned', 't0': 'unsigned', 't1': 'unsigned'}


def norm_ws(s):
    return ' '.join(s.split())


# --------------------------------------------------------------------------------------------
# preprocessor
# --------------------------------------------------------------------------------------------

def strip_c_comments(text):
    out = []
    i, n = 0, len(text)
    while i < n:
        c = text[i]
        if text.startswith('/*', i):
            j = text.find('*/', i + 2)
            if j < 0:
                raise Unsupported('unterminated comment')
            out.append(''.join(ch if ch == '\n' else ' ' for ch in text[i:j + 2]))
            i = j + 2
        elif text.startswith('//', i):
            j = text.find('\n', i)
            j = n if j < 0 else j
            i = j
        elif c == '"':
            j = i + 1
            while j < n and text[j] != '"':
                j += 2 if text[j] == '\\' else 1
            out.append(text[i:j + 1])
            i = j + 1
        elif c == "'":
            j = i + 1
            while j < n and text[j] != "'":
                j += 2 if text[j] == '\\' else 1
            out.append(text[i:j + 1])
            i = j + 1
        else:
            out.append(c)
            i += 1
    return ''.join(out)


def preprocess(text, defined):
    """Evaluate #ifdef/#ifndef/#else/#endif for the set `defined`; collect active #defines.
    Returns (text with directives and inactive lines blanked, macros {name: (params|None, body)})."""
    text = strip_c_comments(text)
    lines = text.split('\n')
    out = []
    macros = {}
    stack = []      # (active_before, this_branch_taken, seen_else)
    active = True
    i = 0
    while i < len(lines):
        line = lines[i]
        s = line.strip()
        if s.startswith('#'):
            full = s
            nblank = 1
            while full.endswith('\\'):
                i += 1
                full = full[:-1] + ' ' + lines[i].strip()
                nblank += 1
            out.extend([''] * nblank)
            m = re.match(r'#\s*(\w+)\s*(.*)$', full)
            if not m:
                raise Unsupported(f'preprocessor line {i + 1}: {s[:40]}')
            d, rest = m.group(1), m.group(2).strip()
            if d in ('ifdef', 'ifndef'):
                if not re.fullmatch(r'\w+', rest):
                    raise Unsupported(f'#{d} {rest}')
                cond = (rest in defined) == (d == 'ifdef')
                stack.append((active, cond, False))
                active = active and cond
            elif d == 'else':
                if not stack or stack[-1][2] or rest:
                    raise Unsupported(f'#else at line {i + 1}')
                prev, cond, _ = stack[-1]
                stack[-1] = (prev, cond, True)
                active = prev and not cond
            elif d == 'endif':
                if not stack:
                    raise Unsupported(f'#endif at line {i + 1}')
                active = stack.pop()[0]
            elif d == 'define':
                if active:
                    mm = re.match(r'(\w+)(\(([^)]*)\))?\s*(.*)$', rest)
                    if not mm:
                        raise Unsupported(f'#define {rest[:40]}')
                    name = mm.group(1)
                    params = None
                    if mm.group(2) is not None and rest[len(name):len(name) + 1] == '(':
                        params = [p.strip() for p in mm.group(3).split(',')] if mm.group(3).strip() else []
                        body = mm.group(4)
                    else:
                        body = rest[len(name):].strip()
                    if name in macros:
                        raise Unsupported(f'macro {name} defined twice in one build')
                    macros[name] = (params, norm_ws(body))
                    if name in defined:
                        pass
            elif d == 'include':
                pass
            elif d in ('if', 'elif', 'undef', 'pragma', 'error'):
                raise Unsupported(f'preprocessor directive #{d} (line {i + 1})')
            else:
                raise Unsupported(f'preprocessor directive #{d} (line {i + 1})')
            i += 1
            continue
        out.append(line if active else '')
        i += 1
    if stack:
        raise Unsupported('unterminated #ifdef')
    return '\n'.join(out), macros


def check_macros(macros, contention):
    exp = dict(EXPECTED_MACROS)
    exp.update(EXPECTED_CONT if contention else EXPECTED_PLAIN)
    for name, (params, body) in exp.items():
        if name not in macros:
            raise Unsupported(f'macro {name} is not defined (the translation relies on it)')
        p, b = macros[name]
        if p != params or norm_ws(b) != norm_ws(body):
            raise Unsupported(f'macro {name} changed: expected `{name}{"(" + ", ".join(params) + ")" if params is not None else ""} {body}`, '
                              f'found `{name}{"(" + ", ".join(p) + ")" if p is not None else ""} {b}`')
    if not contention:
        for name in ('CONTEND', 'CPATTERN'):
            if name in macros:
                raise Unsupported(f'macro {name} defined in the plain build')


# --------------------------------------------------------------------------------------------
# tokenizer
# --------------------------------------------------------------------------------------------
TOKEN_RE = re.compile(r'''
    (?P<ws>\s+)
  | (?P<num>0[xX][0-9a-fA-F]+|\d+)
  | (?P<id>[A-Za-z_]\w*)
  | (?P<str>"(?:[^"\\]|\\.)*")
  | (?P<op>\.\.\.|->|\+\+|--|<<=|>>=|\+=|-=|\*=|/=|%=|&=|\|=|\^=|<<|>>|<=|>=|==|!=|&&|\|\||[-+*/%&|^~!<>=?:;,.(){}\[\]])
''', re.X)


class Tok:
    __slots__ = ('kind', 'text', 'line')

    def __init__(self, kind, text, line):
        self.kind, self.text, self.line = kind, text, line

    def __repr__(self):
        return f'{self.text}@{self.line}'


def tokenize(text, line0=1):
    toks = []
    pos, line = 0, line0
    n = len(text)
    while pos < n:
        m = TOKEN_RE.match(text, pos)
        if not m:
            raise Unsupported(f'c/csimulator.c:{line}: cannot tokenize {text[pos:pos + 20]!r}')
        kind = m.lastgroup
        t = m.group()
        if kind != 'ws':
            toks.append(Tok(kind, t, line))
        line += t.count('\n')
        pos = m.end()
    return toks


def split_args(toks, start):
    """toks[start] == '(' -> (list of arg token lists, index after the matching ')')."""
    assert toks[start].text == '('
    depth = 0
    args, cur = [], []
    i = start
    while i < len(toks):
        t = toks[i]
        if t.text in '([{':
            depth += 1
            if depth > 1:
                cur.append(t)
        elif t.text in ')]}':
            depth -= 1
            if depth == 0:
                if cur or args:
                    args.append(cur)
                return args, i + 1
            cur.append(t)
        elif t.text == ',' and depth == 1:
            args.append(cur)
            cur = []
        else:
            cur.append(t)
        i += 1
    raise Unsupported(f'c/csimulator.c:{toks[start].line}: unbalanced parentheses in macro call')


def expand(toks, macros, hide=()):
    """Textual macro expansion of the EXPAND macros (arguments are expanded first; PRIMITIVE macro calls stay)."""
    out = []
    i = 0
    while i < len(toks):
        t = toks[i]
        if t.kind == 'id' and t.text in macros and t.text not in hide and t.text not in PRIMITIVE:
            if t.text not in EXPAND:
                raise Unsupported(f'c/csimulator.c:{t.line}: use of macro {t.text}, which the translator does not know')
            params, body = macros[t.text]
            btoks = tokenize(body, t.line)
            for b in btoks:
                b.line = t.line
            if params is None:
                out.extend(expand(btoks, macros, hide + (t.text,)))
                i += 1
                continue
            if i + 1 >= len(toks) or toks[i + 1].text != '(':
                raise Unsupported(f'c/csimulator.c:{t.line}: function-like macro {t.text} without arguments')
            args, j = split_args(toks, i + 1)
            if len(args) != len(params):
                raise Unsupported(f'c/csimulator.c:{t.line}: macro {t.text} takes {len(params)} arguments, given {len(args)}')
            args = [expand(a, macros, hide) for a in args]
            sub = []
            for b in btoks:
                if b.kind == 'id' and b.text in params:
                    sub.extend(Tok(x.kind, x.text, t.line) for x in args[params.index(b.text)])
                else:
                    sub.append(b)
            out.extend(expand(sub, macros, hide + (t.text,)))
            i = j
            continue
        out.append(t)
        i += 1
    return out


# --------------------------------------------------------------------------------------------
# AST + parser
# --------------------------------------------------------------------------------------------

class Node:
    def __init__(self, kind, line, **kw):
        self.kind = kind
        self.line = line
        self.__dict__.update(kw)

    def __repr__(self):
        return f'{self.kind}({", ".join(f"{k}={v!r}" for k, v in self.__dict__.items() if k not in ("kind", "line"))})'


def same(a, b):
    """structural equality of two expression ASTs"""
    if isinstance(a, Node) and isinstance(b, Node):
        if a.kind != b.kind:
            return False
        ka = {k: v for k, v in a.__dict__.items() if k != 'line'}
        kb = {k: v for k, v in b.__dict__.items() if k != 'line'}
        return ka.keys() == kb.keys() and all(same(ka[k], kb[k]) for k in ka)
    if isinstance(a, (list, tuple)) and isinstance(b, (list, tuple)):
        return len(a) == len(b) and all(same(x, y) for x, y in zip(a, b))
    return a == b


TYPE_WORDS = {'int', 'unsigned', 'byte', 'long', 'const', 'PyObject', 'char'}
BINPREC = [('||',), ('&&',), ('|',), ('^',), ('&',), ('==', '!='), ('<', '>', '<=', '>='), ('<<', '>>'), ('+', '-'), ('*', '/', '%')]
ASSIGN_OPS = ('=', '+=', '-=', '*=', '/=', '%=', '&=', '|=', '^=', '<<=', '>>=')


class Parser:
    def __init__(self, toks, fname):
        self.toks = toks
        self.i = 0
        self.fname = fname

    def err(self, msg, tok=None):
        tok = tok or (self.toks[self.i] if self.i < len(self.toks) else self.toks[-1])
        return Unsupported(f'c/csimulator.c:{tok.line}: {self.fname}: {msg}')

    def peek(self, k=0):
        return self.toks[self.i + k] if self.i + k < len(self.toks) else Tok('eof', '', -1)

    def next(self):
        t = self.peek()
        self.i += 1
        return t

    def expect(self, text):
        t = self.next()
        if t.text != text:
            raise self.err(f'expected `{text}`, found `{t.text}`', t)
        return t

    def accept(self, text):
        if self.peek().text == text:
            self.i += 1
            return True
        return False

    # ---- types -----------------------------------------------------------------------
    def at_type(self):
        t = self.peek()
        return t.kind == 'id' and t.text in TYPE_WORDS

    def parse_type(self):
        """-> canonical type string: int | unsigned | byte | ull | PyObject* | byte* | ull* | ..."""
        words = []
        while self.peek().kind == 'id' and self.peek().text in TYPE_WORDS:
            words.append(self.next().text)
        const = 'const' in words
        words = [w for w in words if w != 'const']
        base = {('int',): 'int', ('unsigned',): 'unsigned', ('unsigned', 'int'): 'unsigned', ('byte',): 'byte',
                ('unsigned', 'long', 'long'): 'ull', ('PyObject',): 'PyObject', ('long',): 'long'}.get(tuple(words))
        if base is None:
            raise self.err('type `' + ' '.join(words) + '`')
        stars = 0
        while self.accept('*'):
            stars += 1
        return base + '*' * stars, const

    # ---- statements ------------------------------------------------------------------
    def parse_block(self):
        lb = self.expect('{')
        body = []
        while self.peek().text != '}':
            if self.peek().kind == 'eof':
                raise self.err('unterminated block', lb)
            body.append(self.parse_stmt())
        self.expect('}')
        return Node('block', lb.line, body=body)

    def parse_stmt(self):
        t = self.peek()
        if t.text == '{':
            return self.parse_block()
        if t.text == 'if':
            self.next()
            self.expect('(')
            cond = self.parse_expr()
            self.expect(')')
            if self.peek().text != '{':
                raise self.err('`if` body without braces')
            then = self.parse_block()
            els = None
            if self.accept('else'):
                if self.peek().text == 'if':
                    els = Node('block', self.peek().line, body=[self.parse_stmt()])
                elif self.peek().text == '{':
                    els = self.parse_block()
                else:
                    raise self.err('`else` body without braces')
            return Node('if', t.line, cond=cond, then=then, els=els)
        if t.text == 'return':
            self.next()
            val = None
            if self.peek().text != ';':
                val = self.parse_expr()
            self.expect(';')
            return Node('return', t.line, value=val)
        if t.text in ('while', 'for', 'do', 'switch', 'goto', 'break', 'continue', 'case'):
            raise self.err(f'statement `{t.text}`')
        if t.kind == 'id' and t.text in ('POKE', 'OUT', 'CPATTERN') and self.peek(1).text == '(':
            self.next()
            args, j = split_args(self.toks, self.i)
            self.i = j
            self.expect(';')
            return Node('prim', t.line, name=t.text, args=[Parser(a + [Tok('eof', '', t.line)], self.fname).parse_full_expr() for a in args])
        if self.at_type():
            return self.parse_decl()
        e = self.parse_expr()
        self.expect(';')
        return Node('expr', t.line, e=e)

    def parse_decl(self):
        t0 = self.peek()
        ty, const = self.parse_type()
        # pointer-to-array declarator:  byte (*table)[256][2] = lookup;
        if self.peek().text == '(':
            self.next()
            self.expect('*')
            name = self.next()
            self.expect(')')
            dims = []
            while self.accept('['):
                d = self.next()
                if d.kind != 'num':
                    raise self.err('array dimension', d)
                dims.append(int(d.text, 0))
                self.expect(']')
            self.expect('=')
            init = self.parse_expr()
            self.expect(';')
            return Node('decl', t0.line, ty=ty + '(*)', name=name.text, dims=dims, init=init, const=const)
        name = self.next()
        if name.kind != 'id':
            raise self.err('declarator', name)
        dims = None
        if self.accept('['):
            self.expect(']')
            dims = []
        init = None
        if self.accept('='):
            if self.peek().text == '{':
                raise self.err('brace initialiser')
            init = self.parse_expr()
        if self.peek().text == ',':
            raise self.err('multiple declarators in one declaration')
        self.expect(';')
        return Node('decl', t0.line, ty=ty, name=name.text, dims=dims, init=init, const=const)

    # ---- expressions -----------------------------------------------------------------
    def parse_full_expr(self):
        e = self.parse_expr()
        if self.peek().kind != 'eof':
            raise self.err('trailing tokens in macro argument')
        return e

    def parse_expr(self):
        return self.parse_assign()

    def parse_assign(self):
        lhs = self.parse_ternary()
        t = self.peek()
        if t.text in ASSIGN_OPS:
            self.next()
            rhs = self.parse_assign()
            return Node('assign', t.line, op=t.text, target=lhs, value=rhs)
        return lhs

    def parse_ternary(self):
        c = self.parse_bin(0)
        t = self.peek()
        if t.text == '?':
            self.next()
            a = self.parse_expr()
            self.expect(':')
            b = self.parse_ternary()
            return Node('cond', t.line, c=c, a=a, b=b)
        return c

    def parse_bin(self, level):
        if level == len(BINPREC):
            return self.parse_unary()
        lhs = self.parse_bin(level + 1)
        while self.peek().text in BINPREC[level] and self.peek().kind == 'op':
            op = self.next()
            rhs = self.parse_bin(level + 1)
            lhs = Node('bin', op.line, op=op.text, a=lhs, b=rhs)
        return lhs

    def parse_unary(self):
        t = self.peek()
        if t.text in ('!', '-', '~', '&', '+'):
            self.next()
            return Node('un', t.line, op=t.text, a=self.parse_unary())
        if t.text in ('++', '--', '*', 'sizeof'):
            raise self.err(f'prefix operator `{t.text}`')
        if t.text == '(' and self.peek(1).kind == 'id' and self.peek(1).text in TYPE_WORDS:
            self.next()
            ty, _ = self.parse_type()
            self.expect(')')
            return Node('cast', t.line, ty=ty, a=self.parse_unary())
        return self.parse_postfix()

    def parse_postfix(self):
        t = self.next()
        if t.kind == 'num':
            e = Node('num', t.line, value=int(t.text, 0))
        elif t.kind == 'str':
            e = Node('str', t.line, value=t.text)
        elif t.kind == 'id':
            if t.text == 'PEEK' and self.peek().text == '(':
                args, j = split_args(self.toks, self.i)
                self.i = j
                if len(args) != 1:
                    raise self.err('PEEK arity', t)
                e = Node('peek', t.line, a=Parser(args[0] + [Tok('eof', '', t.line)], self.fname).parse_full_expr())
            else:
                e = Node('name', t.line, id=t.text)
        elif t.text == '(':
            e = self.parse_expr()
            self.expect(')')
        else:
            raise self.err(f'unexpected `{t.text}`', t)
        while True:
            p = self.peek()
            if p.text == '[':
                self.next()
                idx = self.parse_expr()
                self.expect(']')
                e = Node('index', p.line, a=e, i=idx)
            elif p.text == '->':
                self.next()
                f = self.next()
                if f.kind != 'id':
                    raise self.err('member name', f)
                e = Node('member', p.line, a=e, f=f.text)
            elif p.text == '(':
                args, j = split_args(self.toks, self.i)
                self.i = j
                e = Node('call', p.line, f=e, args=[Parser(a + [Tok('eof', '', p.line)], self.fname).parse_full_expr() for a in args])
            elif p.text in ('++', '--'):
                self.next()
                e = Node('postinc', p.line, op=p.text, a=e)
            elif p.text == '.':
                raise self.err('`.` member access')
            else:
                return e


# --------------------------------------------------------------------------------------------
# emitter: C integer semantics on Int
# --------------------------------------------------------------------------------------------
RANK = {'int': 1, 'unsigned': 2, 'long': 3, 'ull': 4}
WRAP = {'int': 'CInt.i32', 'unsigned': 'CInt.u32', 'ull': 'CInt.u64', 'byte': 'CInt.u8', 'long': 'CInt.i64'}


class Val:
    """A translated expression: C type, Lean text; kind 'int' (Int-valued) or 'bool' (Prop, C int 0/1);
    `nn`: non-negative by construction from the types/literals alone (byte read, literal >= 0, 0/1)."""

    def __init__(self, ty, text, kind='int', nn=False, lit=None):
        self.ty, self.text, self.kind, self.nn, self.lit = ty, text, kind, nn, lit


class Scope:
    def __init__(self, parent=None):
        self.parent = parent
        self.vars = {}

    def lookup(self, name):
        s = self
        while s is not None:
            if name in s.vars:
                return s.vars[name]
            s = s.parent
        return None


class FuncTr:
    def __init__(self, name, consts, ctables, pyh, tables_meta, contention, lookup_tables, enum_kind):
        self.name = name
        self.enum_kind = enum_kind
        self.consts = consts                # C `static const int` register constants
        self.ctables = ctables              # C global tables name -> dims
        self.pyh = pyh                      # python handler meta (params, kinds, defaults) or None
        self.tables_meta = tables_meta      # simtables meta
        self.contention = contention
        self.lookup_tables = lookup_tables  # C tables passed as LOOKUP to this handler in the dispatch tables
        self.lines = []
        self.used_names = set(py2lean.RESERVED) | {'regs', 'memv', 'ins', 'outs', 'inLog', 'cfg', 's'} | set(FIELD)
        self.tmp = 0
        self.scope = Scope()
        self.tracer_stack = []
        self.ncp = 0
        self.have_reg = False
        self.have_mem = False
        self.local_names = set()
        self.ret_ty = None                  # 'int' for the functions of EXTRA_FUNCS
        params = pyh['params'] if pyh else []
        for p in params:
            self.used_names.add(lname(p))
        # C int args fill the python int params and r_inc, in order (as translate/cdispatch.py does)
        self.c_order = [p for p in params if pyh['kinds'][p] == 'int' or p == 'r_inc']
        self.main_tbl = [p for p in params if pyh['kinds'][p] != 'int' and p != 'r_inc']

    def err(self, node, msg):
        return Unsupported(f'c/csimulator.c:{getattr(node, "line", "?")}: {self.name}: {msg}')

    def emit(self, ind, text):
        self.lines.append('  ' * ind + text)

    def fresh(self, base):
        self.tmp += 1
        return f'{base}{self.tmp}'

    def declare(self, node, cname, ty, extra=None, shadow_param=False):
        """New C local -> a Lean name that is unique in the function (C block scoping / shadowing never relies on
        Lean's); a local initialised from its own closure parameter (`int size = args[2];`) keeps the name."""
        if cname in self.scope.vars:
            raise self.err(node, f'redeclaration of {cname} in the same scope')
        base = lname(cname)
        ln = base
        if not (shadow_param and self.scope.parent is None and ln not in self.local_names):
            k = 1
            while ln in self.used_names:
                k += 1
                ln = f'{base}_{k}'
        self.used_names.add(ln)
        self.local_names.add(ln)
        self.scope.vars[cname] = dict(lean=ln, ty=ty, **(extra or {}))
        return ln

    # ---- conversions -----------------------------------------------------------------
    def as_int(self, v):
        if v.kind == 'bool':
            return Val('int', f'(PyInt.p2i {v.text})', nn=True)
        return v

    def as_bool(self, v, node):
        if v.kind == 'bool':
            return v.text
        return f'({v.text} ≠ 0)'

    def conv(self, v, ty, node):
        """value of C expression `v` converted to C type `ty` (as by assignment / argument passing)"""
        v = self.as_int(v)
        if v.ty == ty:
            return v
        if ty not in WRAP:
            raise self.err(node, f'conversion to {ty}')
        src = v.ty
        if src not in WRAP:
            raise self.err(node, f'conversion from {src}')
        preserve = (src == 'byte' and ty in ('int', 'unsigned', 'ull', 'long')) or (src == 'unsigned' and ty in ('ull', 'long')) \
            or (src == 'int' and ty == 'long') \
            or (v.lit is not None and v.lit >= 0 and ty in ('unsigned', 'ull', 'int', 'long') and v.lit < 2 ** 31) \
            or (v.lit is not None and 0 <= v.lit < 256 and ty == 'byte') \
            or (src == 'int' and v.nn and ty in ('unsigned', 'ull', 'long'))   # a promoted byte / 0-1 / masked value
        if preserve:
            return Val(ty, v.text, nn=v.nn or ty in ('unsigned', 'ull', 'byte'), lit=v.lit)
        return Val(ty, f'({WRAP[ty]} {v.text})', nn=ty in ('unsigned', 'ull', 'byte'))

    def promote(self, v):
        v = self.as_int(v)
        if v.ty == 'byte':
            return Val('int', v.text, nn=True, lit=v.lit)
        return v

    def common(self, a, b, node):
        a, b = self.promote(a), self.promote(b)
        for x in (a, b):
            if x.ty not in RANK:
                raise self.err(node, f'arithmetic on type {x.ty}')
        ty = a.ty if RANK[a.ty] >= RANK[b.ty] else b.ty
        return self.conv(a, ty, node), self.conv(b, ty, node), ty

    # ---- expressions -----------------------------------------------------------------
    def const_index(self, node):
        """register-constant value of an index expression, or None"""
        if node.kind == 'name' and node.id in self.consts and self.scope.lookup(node.id) is None:
            return self.consts[node.id]
        if node.kind == 'num':
            return node.value
        return None

    def reg_read(self, idx, node):
        if not self.have_reg:
            raise self.err(node, '`reg` used before `unsigned long long* reg = self->registers;`')
        k = self.const_index(idx)
        if k is not None:
            if k in SPECIAL:
                if k == 29 and not self.contention:
                    raise self.err(node, 'MEMPTR used in the plain build')
                return Val('ull', SPECIAL[k])
            if not 0 <= k < 24:
                raise self.err(node, f'register index {k}')
            return Val('ull', f'(rget regs {k})')
        i = self.as_int(self.expr(idx))
        return Val('ull', f'(rget regs {i.text})')

    def table_lookup(self, node):
        """`table[i][j]...` / `GLOBAL[i]...` / `values[k]` -> Val or ('pairref', text)"""
        idx = []
        base = node
        while base.kind == 'index':
            idx.append(base.i)
            base = base.a
        idx.reverse()
        if base.kind != 'name':
            raise self.err(node, 'subscript of a non-name')
        name = base.id
        var = self.scope.lookup(name)
        if var is not None and var['ty'] == 'pair':
            if len(idx) != 1 or idx[0].kind != 'num' or idx[0].value not in (0, 1):
                raise self.err(node, f'{name}[...] must be indexed by 0 or 1')
            return Val('byte', f'{var["lean"]}.{idx[0].value + 1}', nn=True)
        if var is not None and var['ty'] == 'table':
            kind = var['kind']
            n = int(kind[1:])
            args = [self.as_int(self.expr(i)).text for i in idx]
            if len(idx) == n:
                call = f'(Tbl{kind}.get {var["lean"]} {" ".join(args)})'
                return ('pairref', call) if kind[0] == 'P' else Val('byte', call, nn=True)
            raise self.err(node, f'lookup table {name} of shape {kind} indexed {len(idx)} times')
        if var is None and name in self.ctables:
            dims = self.ctables[name]
            meta = self.tables_meta.get(name)
            if meta is None:
                raise self.err(node, f'C table {name} has no simtables.py counterpart')
            pdims = meta['dims'] + ([2] if meta['leaf'] == 'pair' else [])
            if pdims != dims:
                raise self.err(node, f'C table {name}{dims} vs simtables {pdims}')
            n = len(meta['dims'])
            args = [self.as_int(self.expr(i)).text for i in idx[:n]]
            # the table by name, through the enumeration of its shape when the Python dispatch sites pass it
            # to closures (`TblI1.get .SZ53P x` is `Tbl.SZ53P x` by computation), else the function itself
            ek = self.enum_kind.get(name)
            call = f'(Tbl{ek}.get .{name} {" ".join(args)})' if ek else f'(Tbl.{name} {" ".join(args)})'
            if len(idx) == n:
                return ('pairref', call) if meta['leaf'] == 'pair' else Val('byte', call, nn=True)
            if len(idx) == n + 1 and meta['leaf'] == 'pair' and idx[n].kind == 'num' and idx[n].value in (0, 1):
                return Val('byte', f'{call}.{idx[n].value + 1}', nn=True)
            raise self.err(node, f'C table {name} indexed {len(idx)} times')
        raise self.err(node, f'subscript of {name}')

    def expr(self, node):
        k = node.kind
        if k == 'num':
            if node.value >= 2 ** 31:
                raise self.err(node, 'integer literal that does not fit int')
            return Val('int', str(node.value), nn=True, lit=node.value)
        if k == 'name':
            var = self.scope.lookup(node.id)
            if var is not None:
                if var['ty'] in WRAP:
                    return Val(var['ty'], var['lean'], nn=var['ty'] in ('byte', 'unsigned', 'ull'))
                raise self.err(node, f'{node.id} used as a value')
            if node.id in self.consts:
                v = self.consts[node.id]
                return Val('int', str(v), nn=True, lit=v)
            raise self.err(node, f'unknown name {node.id}')
        if k == 'member':
            if node.a.kind == 'name' and node.a.id == 'self' and self.scope.lookup('self') is None:
                if node.f in CFG_FIELDS:
                    return Val(CFG_FIELDS[node.f], f'cfg.{node.f}', nn=True)
                if node.f in TRACERS:
                    return Val('int', f'(cfg.{node.f} = true)', kind='bool')
                if node.f == 'out7ffd':
                    return Val('byte', '(MemLike.o7ffd memv)', nn=True)
            raise self.err(node, f'member access ->{node.f}')
        if k == 'peek':
            if not self.have_mem:
                raise self.err(node, 'PEEK used before `byte* mem = self->memory;`')
            a = self.as_int(self.expr(node.a))
            return Val('byte', f'(mget memv {a.text})', nn=True)
        if k == 'index':
            if node.a.kind == 'name' and node.a.id == 'reg' and self.is_reg(node.a):
                return self.reg_read(node.i, node)
            if node.a.kind == 'name' and node.a.id == 'args' and self.scope.lookup('args') is None:
                return self.arg_read(node)
            r = self.table_lookup(node)
            if isinstance(r, tuple):
                raise self.err(node, 'table row used as a value')
            return r
        if k == 'cast':
            v = self.expr(node.a)
            if node.ty not in WRAP:
                raise self.err(node, f'cast to {node.ty}')
            return self.conv(v, node.ty, node)
        if k == 'un':
            if node.op == '!':
                return Val('int', f'(¬ {self.as_bool(self.expr(node.a), node)})', kind='bool')
            if node.op == '-':
                v = self.promote(self.expr(node.a))
                if v.lit is not None:
                    return Val('int', f'({-v.lit})', lit=-v.lit)
                return Val(v.ty, f'({WRAP[v.ty]} (- {v.text}))', nn=v.ty != 'int')
            raise self.err(node, f'unary operator `{node.op}`')
        if k == 'bin':
            return self.binop(node)
        if k == 'cond':
            c = self.as_bool(self.expr(node.c), node)
            a, b, ty = self.common(self.expr(node.a), self.expr(node.b), node)
            return Val(ty, f'(if {c} then {a.text} else {b.text})', nn=a.nn and b.nn)
        if k == 'assign':
            raise self.err(node, 'assignment used as a value')
        if k == 'call':
            raise self.err(node, 'function call in an expression')
        raise self.err(node, f'expression {k}')

    def is_reg(self, namenode):
        v = self.scope.lookup('reg')
        return v is not None and v['ty'] == 'regptr'

    def arg_read(self, node):
        if node.i.kind != 'num':
            raise self.err(node, 'args[] with a non-literal index')
        return self.arg_value(node.i.value, node)

    def arg_value(self, k, node):
        if self.pyh is None or k >= len(self.c_order):
            raise self.err(node, f'args[{k}] has no closure parameter')
        p = self.c_order[k]
        if p == 'r_inc':
            return Val('int', f'(CInt.rInc {lname(p)})')
        return Val('int', lname(p))

    def binop(self, node):
        op = node.op
        if op in ('&&', '||'):
            a = self.as_bool(self.expr(node.a), node)
            b = self.as_bool(self.expr(node.b), node)
            return Val('int', f'({a} {"∧" if op == "&&" else "∨"} {b})', kind='bool')
        va, vb = self.expr(node.a), self.expr(node.b)
        if op in ('==', '!=', '<', '>', '<=', '>='):
            a, b, ty = self.common(va, vb, node)
            sym = {'==': '=', '!=': '≠', '<': '<', '>': '>', '<=': '≤', '>=': '≥'}[op]
            return Val('int', f'({a.text} {sym} {b.text})', kind='bool')
        if op in ('<<', '>>'):
            a = self.promote(va)
            b = self.promote(vb)
            if op == '<<':
                raise self.err(node, 'operator `<<`')
            if b.lit is None or not 0 <= b.lit < 32:
                raise self.err(node, '`>>` by a non-literal count')
            if a.ty not in ('unsigned', 'ull') and not a.nn:
                raise self.err(node, '`>>` on a possibly negative operand')
            return Val(a.ty, f'(PyInt.shr {a.text} {b.lit})', nn=True)
        a, b, ty = self.common(va, vb, node)
        if op in ('+', '-', '*'):
            return Val(ty, f'({WRAP[ty]} ({a.text} {op} {b.text}))', nn=ty != 'int')
        if op in ('&', '|', '^'):
            fn = {'&': 'PyInt.land', '|': 'PyInt.lor', '^': 'PyInt.xor'}[op]
            nn = ty != 'int' or (op == '&' and (a.nn or b.nn)) or (a.nn and b.nn)
            return Val(ty, f'({fn} {a.text} {b.text})', nn=nn)
        if op in ('/', '%'):
            if b.lit == 0:
                raise self.err(node, 'division by literal zero')
            if ty in ('unsigned', 'ull') or (self.triv_nn(va) and self.triv_nn(vb)):
                return Val(ty, f'({a.text} {op} {b.text})', nn=True)
            fn = 'Int.tdiv' if op == '/' else 'Int.tmod'
            return Val(ty, f'({fn} {a.text} {b.text})')
        raise self.err(node, f'operator `{op}`')

    @staticmethod
    def triv_nn(v):
        """non-negative from the TYPE or literal alone (byte, unsigned, ull, literal >= 0, comparison result)"""
        return v.kind == 'bool' or v.ty in ('byte', 'unsigned', 'ull') or (v.lit is not None and v.lit >= 0)

    # ---- statements ------------------------------------------------------------------
    def assign(self, target, v, node, ind):
        """store Val v (already of the C type of the target? no: converts) into target"""
        if target.kind == 'name':
            var = self.scope.lookup(target.id)
            if var is None or var['ty'] not in WRAP:
                raise self.err(node, f'assignment to {target.id}')
            self.emit(ind, f'{var["lean"]} := {self.conv(v, var["ty"], node).text}')
            return
        if target.kind == 'index' and target.a.kind == 'name' and target.a.id == 'reg' and self.is_reg(target.a):
            val = self.conv(v, 'ull', node).text
            k = self.const_index(target.i)
            if k is not None:
                if k in SPECIAL:
                    if k == 29 and not self.contention:
                        raise self.err(node, 'MEMPTR written in the plain build')
                    self.emit(ind, f'{SPECIAL[k]} := {val}')
                    return
                if not 0 <= k < 24:
                    raise self.err(node, f'register index {k}')
                self.emit(ind, f'regs := rset regs {k} {val}')
                return
            i = self.as_int(self.expr(target.i))
            self.emit(ind, f'regs := rset regs {i.text} {val}')
            return
        raise self.err(node, 'assignment target')

    def target_value(self, target, node):
        if target.kind == 'name':
            return self.expr(target)
        if target.kind == 'index':
            return self.expr(target)
        raise self.err(node, 'compound assignment target')

    def block(self, blk, ind, new_scope=True):
        if new_scope:
            self.scope = Scope(self.scope)
        n0 = len(self.lines)
        body = blk.body
        i = 0
        while i < len(body):
            self.stmt(body[i], ind)
            i += 1
        if len(self.lines) == n0:
            self.emit(ind, 'pure ()')
        if new_scope:
            self.scope = self.scope.parent

    def stmt(self, st, ind):
        k = st.kind
        if k == 'block':
            raise self.err(st, 'nested bare block')
        if k == 'decl':
            return self.decl(st, ind)
        if k == 'expr':
            e = st.e
            if e.kind == 'assign':
                if e.op == '=':
                    if e.value.kind == 'call':
                        raise self.err(st, 'call result assigned outside a recognised tracer block')
                    self.assign(e.target, self.expr(e.value), st, ind)
                    return
                op = e.op[:-1]
                cur = Node('bin', e.line, op=op, a=e.target, b=e.value)
                self.assign(e.target, self.expr(cur), st, ind)
                return
            raise self.err(st, 'expression statement that is not an assignment')
        if k == 'if':
            return self.if_stmt(st, ind)
        if k == 'prim':
            return self.prim(st, ind)
        if k == 'return':
            if self.ret_ty is None or st.value is None:
                raise self.err(st, '`return` outside a recognised tracer block')
            v = self.conv(self.expr(st.value), self.ret_ty, st)
            self.emit(ind, f'return ({RECORD}, {v.text})')
            return
        raise self.err(st, f'statement {k}')

    def decl(self, st, ind):
        ty = st.ty
        # unsigned long long* reg = self->registers;
        if ty == 'ull*':
            if not (st.name == 'reg' and st.init is not None and st.init.kind == 'member' and st.init.f == 'registers'
                    and st.init.a.kind == 'name' and st.init.a.id == 'self' and self.scope.parent is None):
                raise self.err(st, 'pointer declaration other than `unsigned long long* reg = self->registers;`')
            self.scope.vars['reg'] = dict(lean='regs', ty='regptr')
            self.have_reg = True
            return
        if ty == 'byte*':
            i = st.init
            if st.name == 'mem':
                if not (i is not None and i.kind == 'member' and i.f == 'memory' and i.a.kind == 'name' and i.a.id == 'self'):
                    raise self.err(st, '`byte* mem` must be initialised with self->memory')
                if self.scope.lookup('mem') is not None and 'mem' in self.scope.vars:
                    raise self.err(st, 'redeclaration of mem')
                self.scope.vars['mem'] = dict(lean='memv', ty='memptr')
                self.have_mem = True
                return
            if i is None or i.kind != 'index':
                raise self.err(st, '`byte*` declaration that is not a table row')
            r = self.table_lookup(i)
            if not (isinstance(r, tuple) and r[0] == 'pairref'):
                raise self.err(st, '`byte*` must point to a (value, flags) row')
            ln = self.declare(st, st.name, 'pair')
            self.emit(ind, f'let {ln} := {r[1]}')
            return
        if ty == 'byte(*)':
            # byte (*table)[256][2] = lookup;
            if not (st.init is not None and st.init.kind == 'name' and st.init.id == 'lookup' and self.scope.parent is None):
                raise self.err(st, 'pointer-to-array declaration not initialised with `lookup`')
            if not self.main_tbl:
                raise self.err(st, 'handler uses `lookup` but the Python closure has no table parameter')
            p = self.main_tbl[0]
            kind = self.pyh['kinds'][p]
            n = int(kind[1:])
            want = n + (1 if kind[0] == 'P' else 0)
            if len(st.dims) + 1 != want or (kind[0] == 'P' and st.dims[-1] != 2):
                raise self.err(st, f'`{st.name}` declared with {len(st.dims) + 1} dimensions; closure parameter {p} has shape {kind}')
            # every C table passed as LOOKUP must have exactly these trailing dimensions
            for t in self.lookup_tables:
                if t not in self.ctables or self.ctables[t][1:] != st.dims:
                    raise self.err(st, f'table {t}{self.ctables.get(t)} passed as lookup does not fit `(*{st.name}){st.dims}`')
            self.scope.vars[st.name] = dict(lean=lname(p), ty='table', kind=kind)
            return
        if ty in WRAP and st.dims is None:
            if st.init is None:
                raise self.err(st, 'declaration without initialiser')
            v = self.conv(self.expr(st.init), ty, st)
            i = st.init
            own = (i.kind == 'index' and i.a.kind == 'name' and i.a.id == 'args' and i.i.kind == 'num' and self.pyh is not None
                   and i.i.value < len(self.c_order) and self.c_order[i.i.value] == st.name)
            ln = self.declare(st, st.name, ty, shadow_param=own)
            self.emit(ind, f'let mut {ln} : Int := {v.text}')
            return
        raise self.err(st, f'declaration of type {ty}')

    def if_stmt(self, st, ind):
        c = st.cond
        # tracer idioms
        if c.kind == 'member' and c.a.kind == 'name' and c.a.id == 'self':
            if c.f == 'read_port':
                return self.read_idiom(st, ind)
            if c.f == 'out_tracer':
                return self.out_idiom(st, ind)
            if c.f in TRACERS:
                self.tracer_stack.append(c.f)
                try:
                    self.emit(ind, f'if (cfg.{c.f} = true) then')
                    self.block(st.then, ind + 1)
                    if st.els is not None:
                        raise self.err(st, 'else branch of a tracer test')
                finally:
                    self.tracer_stack.pop()
                return
        cond = self.as_bool(self.expr(c), st)
        self.emit(ind, f'if {cond} then')
        self.block(st.then, ind + 1)
        if st.els is not None:
            self.emit(ind, 'else')
            self.block(st.els, ind + 1)

    # `if (self->read_port) { V = self->read_port(self, P); } else { PyObject* m_args = Py_BuildValue("(OI)",
    #  self->registers_obj, P); PyObject* rv = PyObject_Call(self-><tracer>, m_args, NULL); Py_XDECREF(m_args);
    #  if (rv) { V = [(byte)]PyLong_AsLong(rv); Py_DECREF(rv); } }`
    def read_idiom(self, st, ind):
        def bad(why):
            return self.err(st, 'port-read block does not have the expected shape: ' + why)
        if not self.tracer_stack or self.tracer_stack[-1] == 'out_tracer':
            raise bad('not inside `if (self-><in tracer>)`')
        tracer = self.tracer_stack[-1]
        th, el = st.then.body, (st.els.body if st.els is not None else None)
        if el is None or len(th) != 1 or len(el) != 4:
            raise bad('statement counts')
        a = th[0]
        if not (a.kind == 'expr' and a.e.kind == 'assign' and a.e.op == '=' and a.e.target.kind == 'name' and a.e.value.kind == 'call'):
            raise bad('fast path')
        call = a.e.value
        if not (is_self_member(call.f, 'read_port') and len(call.args) == 2 and is_name(call.args[0], 'self')):
            raise bad('fast path call')
        target, port = a.e.target, call.args[1]
        d1, d2, x, i2 = el
        ok = (d1.kind == 'decl' and d1.ty == 'PyObject*' and d1.init is not None and d1.init.kind == 'call' and is_name(d1.init.f, 'Py_BuildValue')
              and len(d1.init.args) == 3 and d1.init.args[0].kind == 'str' and d1.init.args[0].value == '"(OI)"'
              and is_self_member(d1.init.args[1], 'registers_obj') and same(d1.init.args[2], port))
        if not ok:
            raise bad('Py_BuildValue')
        ok = (d2.kind == 'decl' and d2.ty == 'PyObject*' and d2.init is not None and d2.init.kind == 'call' and is_name(d2.init.f, 'PyObject_Call')
              and len(d2.init.args) == 3 and is_self_member(d2.init.args[0], tracer) and is_name(d2.init.args[1], d1.name)
              and is_name(d2.init.args[2], 'NULL'))
        if not ok:
            raise bad('PyObject_Call')
        if not (x.kind == 'expr' and x.e.kind == 'call' and is_name(x.e.f, 'Py_XDECREF') and len(x.e.args) == 1 and is_name(x.e.args[0], d1.name)):
            raise bad('Py_XDECREF')
        if not (i2.kind == 'if' and is_name(i2.cond, d2.name) and i2.els is None and len(i2.then.body) == 2):
            raise bad('if (rv)')
        s1, s2 = i2.then.body
        if not (s1.kind == 'expr' and s1.e.kind == 'assign' and s1.e.op == '=' and same(s1.e.target, target)):
            raise bad('result assignment')
        rhs = s1.e.value
        cast = None
        if rhs.kind == 'cast':
            cast, rhs = rhs.ty, rhs.a
        if not (rhs.kind == 'call' and is_name(rhs.f, 'PyLong_AsLong') and len(rhs.args) == 1 and is_name(rhs.args[0], d2.name)):
            raise bad('PyLong_AsLong')
        if not (s2.kind == 'expr' and s2.e.kind == 'call' and is_name(s2.e.f, 'Py_DECREF') and len(s2.e.args) == 1 and is_name(s2.e.args[0], d2.name)):
            raise bad('Py_DECREF')
        var = self.scope.lookup(target.id)
        if var is None or var['ty'] not in WRAP:
            raise bad('target variable')
        # both paths deliver the tracer's answer: the next value of the input stream.  Path 1 returns `unsigned`,
        # path 2 a `long` (optionally cast to byte); both are then converted to the target's type.
        p = self.conv(self.expr(port), 'unsigned', st)
        tmp = self.fresh('rd')
        self.emit(ind, f'inLog := {p.text} :: inLog')
        self.emit(ind, f'let {tmp} := readPort ins')
        self.emit(ind, f'ins := {tmp}.2')
        v1 = self.conv(Val('unsigned', f'(CInt.u32 {tmp}.1)'), var['ty'], st).text
        v2 = Val('long', f'{tmp}.1')
        if cast is not None:
            v2 = self.conv(v2, cast, st)
        v2 = self.conv(v2, var['ty'], st).text
        if var['ty'] == 'byte':
            # u8 (u32 x) = u8 x: emit the single conversion when both paths end in a byte
            v1 = v2 = f'(CInt.u8 {tmp}.1)'
        elif var['ty'] == 'unsigned':
            v1 = v2 = f'(CInt.u32 {tmp}.1)'
        if v1 != v2:
            raise bad(f'the two paths convert the value differently ({v1} vs {v2})')
        self.emit(ind, f'{var["lean"]} := {v1}')

    # `if (self->out_tracer) { PyObject* m_args = Py_BuildValue("(OIBI)", self->registers_obj, P, V, X);
    #  PyObject* rv = PyObject_Call(self->out_tracer, m_args, NULL); Py_XDECREF(m_args); if (rv == NULL) { return; }
    #  Py_DECREF(rv); }`
    def out_idiom(self, st, ind):
        def bad(why):
            return self.err(st, 'port-write block does not have the expected shape: ' + why)
        if st.els is not None or len(st.then.body) != 5:
            raise bad('statement counts')
        d1, d2, x, i2, y = st.then.body
        ok = (d1.kind == 'decl' and d1.ty == 'PyObject*' and d1.init is not None and d1.init.kind == 'call' and is_name(d1.init.f, 'Py_BuildValue')
              and len(d1.init.args) == 5 and d1.init.args[0].kind == 'str' and d1.init.args[0].value == '"(OIBI)"'
              and is_self_member(d1.init.args[1], 'registers_obj'))
        if not ok:
            raise bad('Py_BuildValue')
        ok = (d2.kind == 'decl' and d2.ty == 'PyObject*' and d2.init is not None and d2.init.kind == 'call' and is_name(d2.init.f, 'PyObject_Call')
              and len(d2.init.args) == 3 and is_self_member(d2.init.args[0], 'out_tracer') and is_name(d2.init.args[1], d1.name)
              and is_name(d2.init.args[2], 'NULL'))
        if not ok:
            raise bad('PyObject_Call')
        if not (x.kind == 'expr' and x.e.kind == 'call' and is_name(x.e.f, 'Py_XDECREF') and len(x.e.args) == 1 and is_name(x.e.args[0], d1.name)):
            raise bad('Py_XDECREF')
        ok = (i2.kind == 'if' and i2.cond.kind == 'bin' and i2.cond.op == '==' and is_name(i2.cond.a, d2.name) and is_name(i2.cond.b, 'NULL')
              and i2.els is None and len(i2.then.body) == 1 and i2.then.body[0].kind == 'return' and i2.then.body[0].value is None)
        if not ok:
            raise bad('if (rv == NULL) { return; }')
        if not (y.kind == 'expr' and y.e.kind == 'call' and is_name(y.e.f, 'Py_DECREF') and len(y.e.args) == 1 and is_name(y.e.args[0], d2.name)):
            raise bad('Py_DECREF')
        p = self.conv(self.expr(d1.init.args[2]), 'unsigned', st)      # format I: unsigned int
        v = self.conv(self.expr(d1.init.args[3]), 'byte', st)          # format B: unsigned char
        self.conv(self.expr(d1.init.args[4]), 'unsigned', st)          # the T-state offset: evaluated, not part of the model's log
        self.emit(ind, 'if (cfg.out_tracer = true) then')
        self.emit(ind + 1, f'outs := ({p.text}, {v.text}) :: outs')

    def prim(self, st, ind):
        if st.name == 'POKE':
            if not self.have_mem:
                raise self.err(st, 'POKE used before `byte* mem = self->memory;`')
            if len(st.args) != 2:
                raise self.err(st, 'POKE arity')
            a = self.as_int(self.expr(st.args[0]))
            v = self.conv(self.expr(st.args[1]), 'byte', st)
            self.emit(ind, f'memv := mset memv {a.text} {v.text}')
            return
        if st.name == 'OUT':
            if not self.have_mem:
                raise self.err(st, 'OUT used before `byte* mem = self->memory;`')
            if len(st.args) != 2:
                raise self.err(st, 'OUT arity')
            p = self.as_int(self.expr(st.args[0]))
            v = self.conv(self.expr(st.args[1]), 'byte', st)
            self.emit(ind, f'memv := MemLike.portOut memv {p.text} {v.text}')
            return
        if st.name == 'CPATTERN':
            if not self.contention:
                raise self.err(st, 'CPATTERN in the plain build')
            tv, dv = self.scope.lookup('t'), self.scope.lookup('delay')
            if not (tv and dv and tv['ty'] == 'unsigned' and dv['ty'] == 'unsigned'):
                raise self.err(st, 'CPATTERN needs `unsigned t` and `unsigned delay` in scope')
            if 'cpattern' in self.scope.vars:
                raise self.err(st, 'two CPATTERNs in one scope (redeclaration of cpattern)')
            self.scope.vars['cpattern'] = dict(lean='-', ty='cpattern')
            n = st.args[0]
            if n.kind != 'num' or len(st.args) != 1 + 2 * n.value:
                raise self.err(st, f'CPATTERN({n.value if n.kind == "num" else "?"}, ...) given {len(st.args) - 1} values')
            parts = []
            for j in range(n.value):
                a = self.conv(self.expr(st.args[1 + 2 * j]), 'unsigned', st)
                ts = st.args[2 + 2 * j]
                if ts.kind != 'num':
                    raise self.err(st, 'CPATTERN T-state entry that is not an integer literal')
                if ts.value == 0:
                    parts.append(('list', f'(io_contention cfg memv {a.text})'))
                else:
                    parts.append(('item', f'({a.text}, {ts.value})'))
            groups = []
            for kind, text in parts:
                if kind == 'item' and groups and groups[-1][0] == 'items':
                    groups[-1][1].append(text)
                elif kind == 'item':
                    groups.append(('items', [text]))
                else:
                    groups.append(('list', text))
            texts = [('[' + ', '.join(g[1]) + ']') if g[0] == 'items' else g[1] for g in groups]
            self.ncp += 1
            cp, cd = f'cp{self.ncp}', f'cd{self.ncp}'
            self.emit(ind, f'let {cp} : List (Int × Int) := ' + (' ++ '.join(texts) if texts else '[]'))
            self.emit(ind, f'let {cd} := contend cfg memv {tv["lean"]} {cp}')
            self.emit(ind, f'{dv["lean"]} := CInt.u32 ({dv["lean"]} + {cd})')
            self.emit(ind, f'{tv["lean"]} := CInt.u32 ({tv["lean"]} + {cd} + CInt.patT {cp})')
            return
        raise self.err(st, f'primitive {st.name}')


def is_name(n, name):
    return n.kind == 'name' and n.id == name


def is_self_member(n, f):
    return n.kind == 'member' and n.f == f and n.a.kind == 'name' and n.a.id == 'self'


# --------------------------------------------------------------------------------------------
# file level
# --------------------------------------------------------------------------------------------
# Argument tuples the C handlers are written for (beyond `instrWf`); every dispatch row satisfies them
# (`CSimH.get_cargs`, kernel-checked over the 1792 slots in Proofs/CVsPyStep.lean):
#  ld_rr_nn   for SP the C code reads the operand at PC+1/PC+2 (Python: PC+size-2/PC+size-1): LD SP,nn has size 3
#  ld_r_rr / ld_rr_r (LD A,(BC/DE) / LD (BC/DE),A): the contended C handler computes MEMPTR from the register pair
#             before A and R are written, Python after: the same unless the pair contains A or R
EXTRA_ARGS = {'ld_rr_nn': ['decide (rl = 12 → size = 3)'],
              'ld_r_rr': ['decide (r = 0 → (rh ≠ 0 ∧ rl ≠ 0 ∧ rh ≠ 15 ∧ rl ≠ 15))'],
              'ld_rr_r': ['decide (r = 0 → rl ≠ 15)']}


def args_conds(name, h):
    conds = []
    for p in h['params']:
        if p == 'r_inc':
            conds.append(f'decide ({lname(p)} = .R1 ∨ {lname(p)} = .R2)')
        elif p == 'timing':
            conds.append(f'decide ({lname(p)} < 2147483648)')
    return conds + EXTRA_ARGS.get(name, [])


RECORD = ('{ reg := regs, mem := memv, pc := rPC, t := rT, iff := rIFF, im := rIM, halt := rHALT, '
          'memptr := rMEMPTR, ins := ins, outs := outs, inLog := inLog }')
# functions other than the opcode handlers: name -> (exact header, [(C parameter, C type, Lean parameter)], C return type)
EXTRA_FUNCS = {'accept_interrupt': ('static int accept_interrupt(CSimulatorObject* self, unsigned prev_pc) {',
                                    [('prev_pc', 'unsigned', 'prevPc')], 'int')}
HANDLER_RE = re.compile(r'^static void (\w+)\(CSimulatorObject\* self, void\* lookup, int (\w+)\[\]\) \{\s*$', re.M)
SKIP_HANDLERS = {'dec_a'}   # LoadTracer accelerator: no Python closure counterpart; it mutates args[] (hit counters)


def function_text(text, start):
    """text[start] is the `{` of a function body -> index after the matching `}`"""
    depth = 0
    i = start
    while i < len(text):
        c = text[i]
        if c == '"':
            j = i + 1
            while text[j] != '"':
                j += 2 if text[j] == '\\' else 1
            i = j
        elif c == '{':
            depth += 1
        elif c == '}':
            depth -= 1
            if depth == 0:
                return i + 1
        i += 1
    raise Unsupported('unterminated function body')


def parse_globals(text):
    consts = {}
    for m in re.finditer(r'^static const int (\w+) = (\d+);\s*$', text, re.M):
        consts[m.group(1)] = int(m.group(2))
    ctables = {}
    for m in re.finditer(r'^static byte (\w+)((?:\[\d+\])+);\s*$', text, re.M):
        ctables[m.group(1)] = [int(x) for x in re.findall(r'\[(\d+)\]', m.group(2))]
    return consts, ctables


def lookup_usage(text):
    """handler -> set of C tables passed as LOOKUP in the dispatch tables"""
    use = {}
    for m in re.finditer(r'^\s*\{\s*(\w+)\s*,\s*(\w+)\s*,\s*\{[^}]*\}\s*\}', text, re.M):
        if m.group(2) != 'NULL':
            use.setdefault(m.group(1), set()).add(m.group(2))
    return use


def check_fixed_text(text, contention):
    flat = norm_ws(text)
    for t in EXPECTED_TYPEDEFS:
        if norm_ws(t) not in flat:
            raise Unsupported(f'c/csimulator.c: `{t}` not found (the type model relies on it)')
    m = re.search(r'typedef struct CSimulatorObject \{(.*?)\} CSimulatorObject;', text, re.S)
    if not m:
        raise Unsupported('c/csimulator.c: struct CSimulatorObject not found')
    fields = [norm_ws(x) + ';' for x in m.group(1).split(';') if x.strip()]
    for f in EXPECTED_STRUCT_FIELDS + (EXPECTED_STRUCT_FIELDS_CONT if contention else []):
        if f not in fields:
            raise Unsupported(f'c/csimulator.c: struct field `{f}` not found (the type model relies on it)')
    m = re.search(r'static void out7ffd\(CSimulatorObject\* self, byte value\) \{', text)
    if not m:
        raise Unsupported('c/csimulator.c: out7ffd() not found')
    end = function_text(text, m.end() - 1)
    if norm_ws(text[m.start():end]) != EXPECTED_OUT7FFD:
        raise Unsupported('c/csimulator.c: out7ffd() changed (OUT is modelled as MemLike.portOut on the strength of its exact text)')


REG_EXPECT = {'A': 0, 'F': 1, 'B': 2, 'C': 3, 'D': 4, 'E': 5, 'H': 6, 'L': 7, 'SP': 12, 'I': 14, 'R': 15, 'xA': 16, 'xF': 17,
              'xB': 18, 'xC': 19, 'xD': 20, 'xE': 21, 'xH': 22, 'xL': 23, 'PC': 24, 'T': 25, 'IFF': 26, 'IM': 27, 'HALT': 28}


def translate(repo, contention=False):
    """-> ({file name under Gen/: lean text}, meta {'handlers': [names], 'py': closure meta})"""
    with open(os.path.join(repo, 'c/csimulator.c')) as f:
        raw = f.read()
    text, macros = preprocess(raw, {'CONTENTION'} if contention else set())
    check_macros(macros, contention)
    check_fixed_text(text, contention)
    consts, ctables = parse_globals(text)
    exp = dict(REG_EXPECT)
    if contention:
        exp['MEMPTR'] = 29
    for k, v in exp.items():
        if consts.get(k) != v:
            raise Unsupported(f'c/csimulator.c: register constant {k} = {consts.get(k)} (simutils.py: {v})')
    for k in consts:
        if k not in exp:
            raise Unsupported(f'c/csimulator.c: unknown `static const int {k}`')
    _, pymeta = py2lean.gen_sim(repo, cmio=contention)
    handlers = pymeta['handlers']
    tables_meta, _, _ = py2lean.collect_tables(repo)
    _, _, stmeta = py2lean.gen_simtables(repo)
    enum_kind = {n: k for k, names in stmeta['kinds'].items() for n in names}
    usage = lookup_usage(text)
    ns = 'CCmioH' if contention else 'CSimH'
    pns = 'Cmio' if contention else 'Sim'
    sub = 'CCmioH' if contention else 'CH'
    build = '-DCONTENTION' if contention else 'plain'
    head = [f'-- GENERATED by translate/c2lean.py from c/csimulator.c ({build} build). Do not edit.',
            'import SkoolVerif.Prelude.Machine', 'import SkoolVerif.Prelude.CAttrs', 'import SkoolVerif.Prelude.CInt',
            'import SkoolVerif.Gen.SimTblEnums']
    if contention:
        head.append('import SkoolVerif.Model.Contend')
    head += ['set_option linter.unusedVariables false', 'open Z80']
    if contention:
        head.append('open Contend')
    head += [f'namespace {ns}', '']
    files = {}
    names = []
    seen = set()
    for m in HANDLER_RE.finditer(text):
        name = m.group(1)
        if name in SKIP_HANDLERS:
            continue
        if name in seen:
            raise Unsupported(f'c/csimulator.c: handler {name} defined twice')
        seen.add(name)
        if name not in handlers:
            raise Unsupported(f'c/csimulator.c: handler {name} has no Python closure')
        start = m.end() - (len(m.group(0)) - m.group(0).rindex('{'))
        end = function_text(text, start)
        line0 = text.count('\n', 0, start) + 1
        toks = tokenize(text[start:end], line0)
        toks = expand(toks, macros)
        p = Parser(toks + [Tok('eof', '', toks[-1].line)], name)
        body = p.parse_block()
        if p.peek().kind != 'eof':
            raise Unsupported(f'c/csimulator.c: {name}: trailing tokens')
        pyh = handlers[name]
        ft = FuncTr(name, consts, ctables, pyh, tables_meta, contention, sorted(usage.get(name, ())), enum_kind)
        # the parameter `args` may be spelled `arg` in handlers that do not use it
        ft.argname = m.group(2)
        if ft.argname != 'args':
            for t in toks:
                if t.kind == 'id' and t.text in ('args', ft.argname):
                    raise Unsupported(f'c/csimulator.c: {name}: parameter array named {ft.argname} is used')
        ft.block(body, 1, new_scope=False)
        sig = ' '.join(f'({lname(q)} : {"Int" if pyh["kinds"][q] == "int" else "Tbl" + pyh["kinds"][q]})' for q in pyh['params'])
        hd = f'@[csim_handler] def {name} {{μ : Type}} [MemLike μ] (cfg : Cfg) {sig} (s : St μ) : St μ := Id.run do'.replace('  ', ' ')
        lines = [hd, '  let mut regs := s.reg', '  let mut memv := s.mem']
        for v, fl in FIELD.items():
            lines.append(f'  let mut {v} := s.{fl}')
        lines += ['  let mut ins := s.ins', '  let mut outs := s.outs', '  let mut inLog := s.inLog']
        lines += ft.lines
        lines.append(f'  return {RECORD}')
        # one module per handler: a change of one C function re-checks only that function's theorems
        files[f'{sub}/{name}.lean'] = '\n'.join(head + lines) + f'\n\nend {ns}\n'
        names.append(name)
    for name, (header, cparams, ret) in EXTRA_FUNCS.items():
        at = text.find(header)
        if at < 0:
            raise Unsupported(f'c/csimulator.c: `{header}` not found')
        start = at + len(header) - 1
        end = function_text(text, start)
        toks = expand(tokenize(text[start:end], text.count('\n', 0, start) + 1), macros)
        p = Parser(toks + [Tok('eof', '', toks[-1].line)], name)
        body = p.parse_block()
        ft = FuncTr(name, consts, ctables, None, tables_meta, contention, [], enum_kind)
        ft.ret_ty = ret
        sig = []
        for cp, cty, lp in cparams:
            # the caller passes a value of the parameter's C type: the conversion happens at the call
            ft.used_names.add(lp)
            ft.scope.vars[cp] = dict(lean=lname(cp), ty=cty)
            ft.used_names.add(lname(cp))
            ft.lines.append(f'  let mut {lname(cp)} : Int := ({WRAP[cty]} {lp})')
            sig.append(f'({lp} : Int)')
        ft.block(body, 1, new_scope=False)
        if not (body.body and body.body[-1].kind == 'return'):
            raise Unsupported(f'c/csimulator.c: {name}: does not end with a return statement')
        hd = f'@[csim_handler] def {name} {{μ : Type}} [MemLike μ] (cfg : Cfg) {" ".join(sig)} (s : St μ) : St μ × Int := Id.run do'
        lines = [hd, '  let mut regs := s.reg', '  let mut memv := s.mem']
        for v, fl in FIELD.items():
            lines.append(f'  let mut {v} := s.{fl}')
        lines += ['  let mut ins := s.ins', '  let mut outs := s.outs', '  let mut inLog := s.inLog']
        lines += ft.lines
        files[f'{sub}/{name}.lean'] = '\n'.join(head + lines) + f'\n\nend {ns}\n'
    missing = [h for h in handlers if h not in seen]
    if missing:
        raise Unsupported(f'c/csimulator.c: no C handler for the Python closures {missing}')
    # argument representability (its own module: the theorem modules import it, not the other handlers)
    out = [f'-- GENERATED by translate/c2lean.py from the closure list of the current sources ({build} build). Do not edit.',
           f'import SkoolVerif.Gen.{pns}Handlers', 'set_option linter.unusedVariables false', f'namespace {ns}', '']
    out.append('/-- The argument tuple is representable in the C dispatch tables: the R increment is 1 or 2 (Python: the table\n'
               'R1 or R2), `timing` fits an `int` (`instrWf` bounds every other `int` argument), and the tuple is one the C\n'
               'handler is written for (see EXTRA_ARGS in translate/c2lean.py). -/')
    out.append(f'def cArgsOk : {pns}.Instr → Bool')
    for name in names:
        h = handlers[name]
        conds = args_conds(name, h)
        if conds:
            out.append(f'  | .{name} {" ".join(lname(p) for p in h["params"])} => ' + ' && '.join(conds))
    out.append('  | _ => true\n')
    out.append(f'end {ns}')
    files['CCmioArgs.lean' if contention else 'CArgs.lean'] = '\n'.join(out) + '\n'
    out = [f'-- GENERATED by translate/c2lean.py from c/csimulator.c ({build} build): all handlers + the dispatch of a row. Do not edit.']
    out += [f'import SkoolVerif.Gen.{sub}.{name}' for name in names]
    out += [f'import SkoolVerif.Gen.{"CCmioArgs" if contention else "CArgs"}', 'open Z80', f'namespace {ns}', '']
    out.append('/-- Run the C handler a dispatch row `{func, lookup, {args}}` denotes. -/')
    out.append(f'def execLeaf {{μ : Type}} [MemLike μ] (cfg : Cfg) : {pns}.Instr → St μ → St μ')
    for name in names:
        ps = ' '.join(lname(p) for p in handlers[name]['params'])
        out.append(f'  | .{name} {ps}, s => {ns}.{name} cfg {ps} s'.replace('  ,', ',').replace('  s', ' s'))
    out.append('  | .prefix_ _, s => s')
    out.append('  | .prefix2_ _, s => s\n')
    out.append(f'end {ns}')
    files['CCmioHandlers.lean' if contention else 'CHandlers.lean'] = '\n'.join(out) + '\n'
    return files, {'handlers': names, 'py': handlers}


def write_files(outdir, files):
    for fn, text in files.items():
        path = os.path.join(outdir, fn)
        os.makedirs(os.path.dirname(path), exist_ok=True)
        old = open(path).read() if os.path.exists(path) else None
        if old != text:
            open(path, 'w').write(text)


if __name__ == '__main__':
    repo = sys.argv[1] if len(sys.argv) > 1 else '/repo'
    outdir = sys.argv[2] if len(sys.argv) > 2 else os.path.join(os.path.dirname(os.path.abspath(__file__)), '..', 'lean', 'SkoolVerif', 'Gen')
    for cont in (False, True):
        write_files(outdir, translate(repo, cont)[0])
    print('generated CHandlers, CCmioHandlers (+ one module per handler)')
