#!/usr/bin/env python3
"""Emits Gen/CmioBusThms.lean (C19): for every closure of the current source, every argument tuple that
denotes an instruction (`zinstrOf`), every in-range state inside the contended window, the contended
closure's T-states are the plain closure's plus `Z80Bus.busDelay` of the instruction at PC - the fold of
the documented wait pattern over the documented machine cycles (Spec/Z80Bus.lean).

One theorem per closure.  All proofs run the same pipeline (`Proofs/BusTactics.lean`): invert `zinstrOf`
(PRELUDE below, per closure: it only names the pieces of the argument tuple), identify the decoded
instruction (`bus_plain`), unfold both closures and the specification to `delayFrom … [pieces]`
(`bus_go`), compare (`bus_close`).  A closure without an entry gets the default script."""
import os
import sys

sys.path.insert(0, os.path.dirname(os.path.abspath(__file__)))
import py2lean
from py2lean import lname

WINDOW = 'cfg.t0 < s.t % cfg.frame_duration ∧ s.t % cfg.frame_duration < cfg.t1'

TAIL = '''  bus_setup hi
  bus_plain hc
  bus_go []
  bus_close
'''

DEFAULT = '''  zinv hz
  subst hz
''' + TAIL

SCRIPTS = {}


def script(names, text):
    for n in names.split():
        SCRIPTS[n] = text


def pre(obtain, tail=TAIL):
    return '  zinv hz\n' + ''.join('  ' + l + '\n' for l in obtain.strip().split('\n')) + tail


# size-dependent closures: the row's `size` is the instruction's length (from `hc`); what decides
# between the one- and two-fetch patterns is whether the instruction names IX/IY (a Boolean atom)
def sized(atom):
    return f'''  bus_setup hi
  bus_plain hc
  bus_size at hsz
  subst hsz
  rcases Bool.eq_false_or_eq_true ({atom}) with hb | hb <;>
    (bus_go [hb]; bus_close)
'''

# --- the argument tuple fixes the instruction up to an operation name
script('af_hl af_n f_hl', pre('obtain ⟨op, hop, rfl⟩ := hz'))
script('res_hl set_hl', pre('obtain ⟨n, hn, rfl⟩ := hz'))
script('f_r', pre('obtain ⟨op, hop, g, hg, rfl⟩ := hz'))
script('res_r set_r', pre('obtain ⟨n, hn, g, hg, rfl⟩ := hz'))
script('adc_hl sbc_hl', pre('obtain ⟨rp, hrp, rfl⟩ := hz'))
script('jp', pre('obtain ⟨cc, hcc, rfl⟩ := hz'))
script('im bit_hl rst', pre('zif hz\nsubst hz'))
script('bit_r', pre('obtain ⟨g, hg, hz⟩ := hz\nzif hz\nsubst hz'))
script('cf', '''  cases cf <;> (zinv hz; subst hz)
  all_goals
    bus_setup hi
    bus_plain hc
    bus_go []
    bus_close
''')
script('di_ei', '''  zinv hz
  bus_setup hi
  split at hz
  · simp only [Option.some.injEq] at hz; subst hz
    bus_plain hc
    bus_go []
    bus_close
  · split at hz
    · simp only [Option.some.injEq] at hz; subst hz
      bus_plain hc
      bus_go []
      bus_close
    · simp at hz
''')
script('ld_a_ir', '''  zinv hz
  bus_setup hi
  split at hz
  · simp only [Option.some.injEq] at hz; subst hz
    bus_plain hc
    bus_go []
    bus_close
  · split at hz
    · simp only [Option.some.injEq] at hz; subst hz
      bus_plain hc
      bus_go []
      bus_close
    · simp at hz
''')
script('in_c out_c', '''  zinv hz
  bus_setup hi
  split at hz
  · simp only [Option.some.injEq] at hz; subst hz
    bus_plain hc
    bus_go []
    bus_close
  · simp only [Option.bind_eq_bind, Option.bind_eq_some_iff, Option.some.injEq] at hz
    obtain ⟨g, hg, rfl⟩ := hz
    bus_plain hc
    bus_go []
    bus_close
''')
# --- (IX+d) / (IY+d) operands
IDX = '''  bus_setup hi
  bus_plain hc
  idx_cases hx <;> (bus_go []; bus_close)
'''
script('af_xy', pre('obtain ⟨op, hop, i, hx, rfl⟩ := hz', IDX))
script('afc_xy ld_xy_n', pre('obtain ⟨i, hx, rfl⟩ := hz', IDX))
script('ld_r_xy ld_xy_r', pre('obtain ⟨g, hg, i, hx, rfl⟩ := hz', IDX))
script('f_xy', pre('obtain ⟨op, hop, i, hx, c, hcp, rfl⟩ := hz', IDX))
script('res_xy set_xy', pre('obtain ⟨n, hn, i, hx, c, hcp, rfl⟩ := hz', IDX))
script('bit_xy', pre('obtain ⟨i, hx, hz⟩ := hz\nzif hz\nsubst hz', IDX))
# --- (BC) / (DE) / (HL) by register-pair arguments
script('ld_r_rr ld_rr_r', '''  zinv hz
  obtain ⟨g, hg, rp, hrp, hz⟩ := hz
  zif hz
  rename_i hok
  subst hz
  bus_setup hi
  bus_plain hc
  pair_cases hrp <;> first
    | (exfalso; simp only [reduceCtorEq, or_self] at hok; done)
    | (bus_go []; bus_close)
''')
# --- one or two opcode fetches by `size`
script('af_r', '''  zinv hz
  obtain ⟨m, hm, hz⟩ := hz
  split at hz
  · rename_i _ _ op hop
    simp only [Option.bind_eq_bind, Option.bind_eq_some_iff, Option.some.injEq] at hz
    obtain ⟨g, hg, rfl⟩ := hz
''' + ''.join('  ' + l + '\n' for l in sized('g.isIdxHalf').split('\n') if l) + '''  · rename_i _ _ op _ hop
    zif hz
    subst hz
    bus_setup hi
    bus_plain hc
    bus_size at hsz
    subst hsz
    bus_go []
    bus_close
  · simp at hz
''')
script('afc_r ld_r_n', pre('obtain ⟨m, hm, g, hg, rfl⟩ := hz', sized('g.isIdxHalf')))
PAIR_SIZED = '''  zif hz
  rename_i hok
  subst hz
''' + sized('rp.isIdx')
script('ld_rr_nn ld_sp_rr push pop ex_sp', pre('obtain ⟨m, hm, rp, hrp, hz⟩ := hz', PAIR_SIZED))
script('inc_dec_rr', '''  zinv hz
  obtain ⟨m, hm, rp, hrp, dec, hdec, hz⟩ := hz
  zif hz
  subst hz
  cases dec
  all_goals
    simp only [Bool.false_eq_true, if_false, if_true] at hc
''' + ''.join('  ' + l + '\n' for l in sized('rp.isIdx').split('\n') if l))
script('add_rr', pre('obtain ⟨m, hm, dst, hdst, src, hsrc, hz⟩ := hz\nzif hz\nsubst hz', sized('dst.isIdx')))
script('nop', '''  zinv hz
  obtain ⟨m, hm, rfl⟩ := hz
  bus_setup hi
  obtain ⟨hcan, hsz, htm, htm2⟩ := canonD_inv hc
  rw [size_int] at hsz
  simp only [canon] at hcan
  rcases canon_nop_inv _ hcan with rfl | rfl | rfl | ⟨r, rfl⟩
  · bus_size at hsz; subst hsz; bus_go []; bus_close
  · bus_size at hsz; subst hsz; bus_go []; bus_close
  · bus_size at hsz; subst hsz; bus_go []; bus_close
  · have hir := decodable_ld_self r hd
    bus_size at hsz
    subst hsz
    rcases Bool.eq_false_or_eq_true r.isIdxHalf with hb | hb <;>
      (bus_go [hb, hir]; bus_close)
''')
script('reti', '''  zinv hz
  subst hz
  bus_setup hi
  obtain ⟨hcan, hsz, htm, htm2⟩ := canonD_inv hc
  simp only [canon] at hcan
  rcases canon_reti_inv _ hcan with rfl | rfl <;> (bus_go []; bus_close)
''')
FC = '''  rcases fcInstr_inv _ _ _ _ hfi with ⟨rfl, -, rfl⟩ | ⟨rfl, -, rfl⟩ | ⟨rfl, rfl⟩ | ⟨rfl, rfl⟩ <;>
    (bus_plain hc; bus_size at hsz; subst hsz; bus_go []; bus_close)
'''
script('fc_hl', pre('obtain ⟨m, hm, i0, hfi, rfl⟩ := hz\nbus_setup hi', FC))
script('fc_xy', pre('obtain ⟨x, hx, c, hcp, i0, hfi, rfl⟩ := hz\nbus_setup hi', '''  rcases fcInstr_inv _ _ _ _ hfi with ⟨rfl, -, rfl⟩ | ⟨rfl, -, rfl⟩ | ⟨rfl, rfl⟩ | ⟨rfl, rfl⟩ <;>
    (bus_plain hc; bus_size at hsz; subst hsz; idx_cases hx <;> (bus_go []; bus_close))
'''))
script('fc_r', '''  zinv hz
  obtain ⟨m, hm, hz⟩ := hz
  bus_setup hi
  split at hz
  · zif hz; subst hz
    bus_plain hc; bus_size at hsz; subst hsz; bus_go []; bus_close
  · zif hz; subst hz
    bus_plain hc; bus_size at hsz; subst hsz; bus_go []; bus_close
  · simp only [Option.bind_eq_bind, Option.bind_eq_some_iff, Option.some.injEq] at hz
    obtain ⟨g, hg, i0, hfi, rfl⟩ := hz
    rcases fcInstr_inv _ _ _ _ hfi with ⟨rfl, -, rfl⟩ | ⟨rfl, -, rfl⟩ | ⟨rfl, rfl⟩ | ⟨rfl, rfl⟩ <;>
      (bus_plain hc; bus_size at hsz; subst hsz
       rcases Bool.eq_false_or_eq_true g.isIdxHalf with hb | hb <;> (bus_go [hb]; bus_close))
''')
# --- timing-dependent
script('jp_rr', '''  zinv hz
  obtain ⟨m, hm, rp, hrp, hz⟩ := hz
  zif hz
  rename_i hok
  subst hz
  bus_setup hi
  bus_plain hc
  simp only [ZInstr.time, ix] at htm
  subst htm
  pair_cases hrp <;> first
    | (exfalso; simp only [reduceCtorEq, or_self] at hok; done)
    | (bus_go [Int.cast_ofNat_Int]; bus_close)
''')
script('ld_r_r', '''  zinv hz
  obtain ⟨m, hm, a, ha, b, hb, rfl⟩ := hz
  bus_setup hi
  obtain ⟨hcan, hsz, htm, htm2⟩ := canonD_inv hc
  rw [size_int] at hsz
  by_cases hab : a = b
  · subst hab
    simp only [canon, if_true] at hcan
    rcases canon_nop_inv _ hcan with rfl | rfl | rfl | ⟨r, rfl⟩
    · bus_size at hsz; subst hsz; bus_go []; bus_close
    · bus_size at hsz; subst hsz; bus_go []; bus_close
    · bus_size at hsz; subst hsz; simp only [ZInstr.time, Int.cast_ofNat_Int] at htm; subst htm; bus_go []; bus_close
    · have hir := decodable_ld_self r hd
      bus_size at hsz
      simp only [ZInstr.time, timeLd8, hir, Bool.or_self, Bool.false_eq_true, if_false] at htm
      subst hsz
      rcases Bool.eq_false_or_eq_true r.isIdxHalf with hx | hx <;>
        (simp only [hx, Bool.false_eq_true, if_false, if_true, Int.cast_ofNat_Int] at htm; subst htm; bus_go [hx, hir]; bus_close)
  · have hcn : canon (.ld8 (.reg a) (.reg b)) = .ld8 (.reg a) (.reg b) := by simp [canon, hab]
    rw [hcn] at hcan
    have hi' : i' = .ld8 (.reg a) (.reg b) := by
      rcases canon_cases i' with e | e | e <;> rw [e] at hcan
      · exact hcan
      · exact absurd hcan (by simp)
      · exact absurd hcan (by simp)
    subst hi'
    bus_size at hsz
    simp only [ZInstr.time, timeLd8] at htm
    subst hsz
    rcases Bool.eq_false_or_eq_true (a.isIR || b.isIR) with hir | hir <;>
      rcases Bool.eq_false_or_eq_true (a.isIdxHalf || b.isIdxHalf) with hx | hx <;>
        (simp only [hir, hx, Bool.false_eq_true, if_false, if_true, Int.cast_ofNat_Int] at htm; subst htm
         bus_go [hir, hx]; bus_close)
''')
script('ld_rr_mm ld_mm_rr', '''  zinv hz
  obtain ⟨m, hm, rp, hrp, hz⟩ := hz
  zif hz
  rename_i hne
  subst hz
  bus_setup hi
  bus_plain hc
  bus_size at hsz
  pair_cases hrp <;> first
    | (exfalso; simp only [reduceCtorEq, not_true_eq_false] at hne; done)
    | (simp only [isIdx_BC, isIdx_DE, isIdx_HL, isIdx_SP, isIdx_IX, isIdx_IY, Bool.not_true, Bool.not_false, Bool.and_true,
         Bool.and_false, Bool.false_eq_true, if_false, if_true, Int.reduceAdd, Bool.or_false, Bool.false_or, Bool.or_true] at hsz
       by_cases h4 : size = 4
       · subst h4
         first | (exfalso; omega) | (bus_go [ZInstr.size, Int.reduceEq, decide_true, decide_false]; bus_close)
       · have hd4 : decide (size = 4) = false := by simp [h4]
         try simp only [hd4, Bool.false_eq_true, if_false, Int.reduceAdd, Bool.or_false] at hsz
         first | (exfalso; omega) | (subst hsz; bus_go [ZInstr.size, Int.reduceEq, decide_true, decide_false]; bus_close))
''')
# --- conditional: the contended closure's own test is the specification's `branch`
script('jr', '''  zinv hz
  obtain ⟨cc, hcc, rfl⟩ := hz
  bus_setup hi
  bus_plain hc
  have hcode : (PyInt.land (rget s.reg 1) c_and = c_val) = (ccHolds cc (rget s.reg 1) = true) :=
    propext (condOf_spec c_and c_val _ cc hcc (hr.byte 1 (by omega) (by omega) (by omega)))
  by_cases hcond : ccHolds cc (rget s.reg 1) = true <;> (bus_go [hcode, hcond]; bus_close)
''')
script('call', '''  zinv hz
  obtain ⟨cc, hcc, rfl⟩ := hz
  bus_setup hi
  bus_plain hc
  have hcode : ((if c_and ≠ 0 then PyInt.p2i (PyInt.land (rget s.reg 1) c_and = c_val) else c_and) ≠ 0) =
      ¬ (ccHolds cc (rget s.reg 1) = true) :=
    propext (call_cond c_and c_val _ cc hcc (hr.byte 1 (by omega) (by omega) (by omega)))
  simp only [ne_eq] at hcode
  by_cases hcond : ccHolds cc (rget s.reg 1) = true <;> (bus_go [hcode, hcond]; bus_close)
''')
script('ret', '''  zinv hz
  obtain ⟨cc, hcc, rfl⟩ := hz
  bus_setup hi
  bus_plain hc
  cases cc with
  | none =>
    have h0 := condInvOf_none c_and c_val hcc
    subst h0
    bus_go []; bus_close
  | some c =>
    obtain ⟨hne, hcs⟩ := condInvOf_spec c_and c_val _ c hcc (hr.byte 1 (by omega) (by omega) (by omega))
    have hcode : (PyInt.land (rget s.reg 1) c_and = c_val) = (condHolds c (rget s.reg 1) = false) := propext hcs
    cases hcond : condHolds c (rget s.reg 1) <;> (bus_go [hcode, hcond, hne]; bus_close)
''')
script('djnz', '''  zinv hz
  subst hz
  bus_setup hi
  bus_plain hc
  have hB := hr.byte 2 (by omega) (by omega) (by omega)
  have hcode : ((rget s.reg 2 - 1) % 256 = 0) = (rget s.reg 2 = 1) := by unfold Byte at hB; apply propext; omega
  by_cases hcond : rget s.reg 2 = 1 <;> (bus_go [hcode, hcond]; bus_close)
''')
script('halt', '''  zinv hz
  subst hz
  bus_setup hi
  bus_plain hc
  by_cases hcond : s.halt = 0 <;> (bus_go [hcond]; bus_close)
''')
BLOCK = '''  zinv hz
  obtain ⟨dec, hdec, rep, hrep, rfl⟩ := hz
  bus_setup hi
  bus_plain hc
'''
script('ldi', BLOCK + '''  have hB := hr.byte 2 (by omega) (by omega) (by omega)
  have hC := hr.byte 3 (by omega) (by omega) (by omega)
  have hcode : ((rget s.reg 3 + 256 * rget s.reg 2 - 1) % 65536 = 0) = (rget s.reg 3 + 256 * rget s.reg 2 = 1) := by
    unfold Byte at hB hC; apply propext; omega
  rcases repOf_inv _ _ hrep with ⟨rfl, rfl⟩ | ⟨rfl, rfl⟩
  · bus_go []; bus_close
  · by_cases hcond : rget s.reg 3 + 256 * rget s.reg 2 = 1 <;>
      (bus_go [hcode, hcond, p2i_true, p2i_false]; bus_close)
''')


script('cpi', BLOCK + '''  have hB := hr.byte 2 (by omega) (by omega) (by omega)
  have hC := hr.byte 3 (by omega) (by omega) (by omega)
  have hcode : ((rget s.reg 3 + 256 * rget s.reg 2 - 1) % 65536 = 0) = (rget s.reg 3 + 256 * rget s.reg 2 = 1) := by
    unfold Byte at hB hC; apply propext; omega
  rcases repOf_inv _ _ hrep with ⟨rfl, rfl⟩ | ⟨rfl, rfl⟩
  · bus_go []; bus_close
  · by_cases hcond : rget s.reg 3 + 256 * rget s.reg 2 = 1 <;>
      by_cases heq : rget s.reg 0 = mget s.mem (rget s.reg 7 + 256 * rget s.reg 6) <;>
        (bus_go [hcode, hcond, heq, PyInt.p2i]; bus_close)
''')
script('ini', BLOCK + '''  have hB := hr.byte 2 (by omega) (by omega) (by omega)
  have hcode : (rget s.reg 2 = 1) = ((rget s.reg 2 - 1) % 256 = 0) := by unfold Byte at hB; apply propext; omega
  rcases repOf_inv _ _ hrep with ⟨rfl, rfl⟩ | ⟨rfl, rfl⟩
  · bus_go []; bus_close
  · by_cases hcond : (rget s.reg 2 - 1) % 256 = 0 <;>
      (bus_go [hcode, hcond, PyInt.p2i]; bus_close)
''')
script('outi', BLOCK + '''  have hB := hr.byte 2 (by omega) (by omega) (by omega)
  have hC := hr.byte 3 (by omega) (by omega) (by omega)
  have hcode : (rget s.reg 2 = 1) = ((rget s.reg 2 - 1) % 256 = 0) := by unfold Byte at hB; apply propext; omega
  have hport : (rget s.reg 3 + 256 * rget s.reg 2 - 256) % 65536 = rget s.reg 3 + 256 * ((rget s.reg 2 - 1) % 256) := by
    unfold Byte at hB hC; omega
  rcases repOf_inv _ _ hrep with ⟨rfl, rfl⟩ | ⟨rfl, rfl⟩
  · bus_go [hport]; bus_close
  · by_cases hcond : (rget s.reg 2 - 1) % 256 = 0
    · bus_go [hcode, hcond, hport, PyInt.p2i]; bus_close
    · bus_go [hcode, hcond, hport, PyInt.p2i]
      rw [delayFrom_outi _ _ _ _ _ _ _ _ (ioPieces_sum _ _)]
      bus_close
''')


def sig_of(h):
    return ' '.join(f'({lname(p)} : {"Int" if h["kinds"][p] == "int" else "Tbl" + h["kinds"][p]})' for p in h['params'])


def thm(name, h):
    ps = ' '.join(lname(p) for p in h['params'])
    body = SCRIPTS.get(name, DEFAULT)
    return (f'set_option maxHeartbeats 1000000 in\n'
            f'theorem bus_{name} (cfg : Cfg) {sig_of(h)} (s : St μ) (d : Decoded) (i\' : ZInstr)\n'
            f'    (hz : zinstrOf (.{name} {ps}) = some d) (hc : canonD d = canonD (Decoded.of i\')) (hd : Decodable i\')\n'
            f'    (hi : RInv s) (hw : {WINDOW}) :\n'
            f'    (Cmio.{name} cfg {ps} s).t = (Sim.{name} cfg {ps} s).t + busDelay .skoolkit cfg s i\' := by\n'
            + body).replace('  )', ' )').replace('(.' + name + ' )', '.' + name)


def gen(repo, only=None):
    _, meta = py2lean.gen_sim(repo)
    handlers = meta['handlers']
    out = ['-- GENERATED by translate/gen_busdelay.py from the closure list of the current source. Do not edit.',
           'import SkoolVerif.Proofs.BusTactics', 'import SkoolVerif.Gen.CmioVsSimThms',
           'set_option linter.unusedVariables false', 'set_option linter.unusedSimpArgs false',
           'open Z80 Sim Spec Z80Isa Z80Decode C05 Z80Bus Contend', 'namespace C19Bus',
           'variable {μ : Type} [MemLike μ] [CellMem μ]', '']
    for name, h in handlers.items():
        if only and name not in only:
            continue
        out.append(thm(name, h))
    if not only:
        out.append('/-- every closure: inside the contended window the extra T-states are the documented pattern\'s delay -/')
        out.append('theorem bus_execLeaf (cfg : Cfg) (i : Sim.Instr) (s : St μ) (d : Decoded) (i\' : ZInstr)\n'
                   '    (hz : zinstrOf i = some d) (hc : canonD d = canonD (Decoded.of i\')) (hd : Decodable i\')\n'
                   f'    (hi : RInv s) (hw : {WINDOW}) :\n'
                   '    (Cmio.execLeaf cfg (CmioVsSim.toCmio i) s).t = (Sim.execLeaf cfg i s).t + busDelay .skoolkit cfg s i\' := by\n'
                   '  cases i <;> simp only [Sim.execLeaf, Cmio.execLeaf, CmioVsSim.toCmio]')
        for name, h in handlers.items():
            out.append(f'  · exact bus_{name} cfg ' + ' '.join('_' for _ in h['params']) + ' s d i\' hz hc hd hi hw')
        out.append('  · simp [zinstrOf] at hz\n  · simp [zinstrOf] at hz\n')
    out.append('end C19Bus')
    return '\n'.join(out) + '\n'


if __name__ == '__main__':
    repo = sys.argv[1] if len(sys.argv) > 1 else '/repo'
    only = set(sys.argv[2].split(',')) if len(sys.argv) > 2 else None
    outdir = os.path.join(os.path.dirname(os.path.abspath(__file__)), '..', 'lean', 'SkoolVerif', 'Gen')
    fn = 'CmioBusThms.lean' if not only else 'CmioBusTest.lean'
    open(os.path.join(outdir, fn), 'w').write(gen(repo, only))
    print('generated', fn)
