#!/usr/bin/env python3
"""The C LOOPS around the opcode handlers of c/csimulator.c -> Lean 4: `Gen/CLoops/<f>.lean` (plain build, namespace
CSimH.Loop) and `Gen/CCmioLoops/<f>.lean` (-DCONTENTION, namespace CCmioH.Loop), for the entry points in FUNCS
(`CSimulator_run`, `CSimulator_trace`, `CSimulator_exec_frame`).

Built on the C front end and the C-integer emitter of `translate/c2lean.py` (same type model, same macros checked
verbatim); this module adds what the loops need and nothing else.  Anything outside raises `Unsupported`.

  loops       `while (1) { ... }` at function level (not nested): the body becomes the iteration function
              `<f>_loop<k>_body : ... -> St -> Locals -> (St x Locals) x LoopExit rho` (statement order preserved;
              `break` / `return v` inside the body = early return with the exit recorded), the loop the fuel-bounded
              iteration `<f>_loop<k> : Nat -> ...` (structural recursion; `.continue_` = fuel exhausted).  The function
              itself takes the fuel first and returns `(result, done)`.
  locals      every scalar declared at function level before the loop (the PyArg-filled variables included: C code
              assigns to them) is loop state (`structure <F>Locals`); `PyObject*` arguments are never assigned and
              are passed along as parameters of type `PyObj`.
  switch      `switch (e) { case K: ... break; ... default: break; }`, every case ending in `break;` (no fall-through),
              bodies optionally braced: an if/else-if chain on `e = K`.
  rows        `OpcodeFunction* p = &TABLE[i];`, `p = &TABLE[i];`, `c ? &T1[i] : &T2[j]`, `!p->func`,
              `p->func(self, p->lookup, p->args);` over the seven dispatch tables: `CSimH.tget CSim.tbl_X i` (the
              rows translated by cdispatch.py, NULL function pointer = the `.prefix_`/`.prefix2_` marker:
              `CSimH.isNull`), the call = `execLeaf` of the build on that row (the handlers translated by c2lean.py).
              The macro GET_OPCODE_FUNC(&opcodes) is EXPANDED (its text is checked verbatim by c2lean.py) and
              translated like any other statement.
  calls       `accept_interrupt(self, e);` = the function translated by c2lean.py.
  C-API boilerplate, recognised by EXACT (whitespace- and radix-normalised) text, anything else is rejected:
      static char* kwlist[] = {"a", ..., NULL};  +  declarations  +
      if (!PyArg_ParseTupleAndKeywords(args, kwds, "<fmt>", kwlist, &a, ...)) { return NULL; }
                                   formats I (unsigned, no overflow check = mod 2^32), i (int), K (ull, mod 2^64),
                                   p (truth value -> 0/1), O (object); `|`: the following are optional and keep
                                   their initialiser when omitted (Lean: `Option`)
      if (PyErr_Occurred()) { [Py_XDECREF(i);] return NULL; }     no effect (the handlers' tracer callbacks are the
                                                               input stream / output log of the state; they do not raise)
      CHECK_SIGNALS;                                           no effect (macro text checked)
      Py_RETURN_NONE;                                          return
      x != Py_None / x == Py_None, PyLong_Check(x) ? PyLong_AsLong(x) : K     on `PyObj`
      if (self->tracer == NULL) { PyErr_SetString(...); return NULL; }, PyObject* border = PyObject_GetAttrString(self->tracer, "border");
      if (border == NULL) { return NULL; }, Py_XDECREF(border);, PyObject* i = NULL;   (CSimulator_trace: a tracer with a `border`
                                                               attribute is attached: precondition of the model)
      return Py_BuildValue("(IL)", a, b);  /  return PyLong_FromLong(a);        the function's result (`Int x Int` / `Int`)
  callbacks of the trace / frame loops, recognised by exact text (LoopFuncTr.CB_*) and appended to the hidden local `cblog` (most recent
  first): `disassemble(pc)` [0, pc]; `trace(pc, i, t0)` [1, pc, t0] / `trace(fetch_count, pc, t0)` [1, fetch_count, pc, t0];
  `PySet_Add(exec_map, pc)` [2, pc]; `draw_screen(self, draw, frame, border, keyboard)` [3, frame] — its result is the next value of the
  hidden input stream `draws` (`if (rv == -2) { return NULL; }`: the exception path, dropped).
  The machine state is ONE mutable variable `st : St μ`: c2lean's emitter works on unpacked fields, every emitted line is rewritten (`pack`).
"""
import os
import re
import sys

sys.path.insert(0, os.path.dirname(os.path.abspath(__file__)))
import c2lean
import py2lean
from c2lean import Unsupported, Node, Tok, Val, Scope, WRAP, RECORD, norm_ws, is_name, lname

FIELD = py2lean.FIELD
# c2lean's emitter works on the unpacked state (`regs`, `memv`, `rPC`, `rT`, ...: one `let mut` per field).  The loops keep
# the machine state in ONE mutable variable `st : St μ`: every emitted line is rewritten (`pack`), reads `rT` -> `st.t`,
# writes `rT := e` -> `st := { st with t := e }`, the record of all fields -> `st`.
STATE_OF = {'regs': 'reg', 'memv': 'mem', 'ins': 'ins', 'outs': 'outs', 'inLog': 'inLog'}
STATE_OF.update(FIELD)
_STATE_RE = re.compile(r'(?<![\w.])(' + '|'.join(STATE_OF) + r')(?![\w])')
_ASSIGN_RE = re.compile(r'^(' + '|'.join(STATE_OF) + r') := (.*)$')


def pack(text):
    m = _ASSIGN_RE.match(text)
    if m:
        return f'st := {{ st with {STATE_OF[m.group(1)]} := {pack(m.group(2))} }}'
    return _STATE_RE.sub(lambda k: 'st.' + STATE_OF[k.group(1)], text.replace(RECORD, 'st'))

CTBL = {'opcodes': 'MAIN', 'after_CB': 'CB', 'after_ED': 'ED', 'after_DD': 'DD', 'after_FD': 'FD',
        'after_DDCB': 'DDCB', 'after_FDCB': 'FDCB'}
EXPECTED_CHECK_SIGNALS = (None, 'if ((TIME & 0xFFFFFF) < 10) PyErr_CheckSignals()')
LOOP_MACROS = ('GET_OPCODE_FUNC', 'CHECK_SIGNALS')


# --------------------------------------------------------------------------------------------
# canonical text of an AST (for the exact-text idioms)
# --------------------------------------------------------------------------------------------

def ctext(n):
    if isinstance(n, list):
        return ' '.join(ctext(x) for x in n)
    k = n.kind
    if k == 'num':
        return str(n.value)
    if k == 'str':
        return n.value
    if k == 'name':
        return n.id
    if k == 'member':
        return f'{ctext(n.a)}->{n.f}'
    if k == 'index':
        return f'{ctext(n.a)}[{ctext(n.i)}]'
    if k == 'call':
        return f'{ctext(n.f)}({", ".join(ctext(a) for a in n.args)})'
    if k == 'peek':
        return f'PEEK({ctext(n.a)})'
    if k == 'un':
        return f'{n.op}{ctext(n.a)}'
    if k == 'bin':
        return f'({ctext(n.a)} {n.op} {ctext(n.b)})'
    if k == 'cond':
        return f'({ctext(n.c)} ? {ctext(n.a)} : {ctext(n.b)})'
    if k == 'cast':
        return f'({n.ty}){ctext(n.a)}'
    if k == 'assign':
        return f'{ctext(n.target)} {n.op} {ctext(n.value)}'
    if k == 'postinc':
        return f'{ctext(n.a)}{n.op}'
    if k == 'expr':
        return ctext(n.e) + ';'
    if k == 'decl':
        init = f' = {ctext(n.init)}' if n.init is not None else ''
        return f'{n.ty} {n.name}{init};'
    if k == 'return':
        return 'return;' if n.value is None else f'return {ctext(n.value)};'
    if k == 'block':
        return '{ ' + ' '.join(ctext(s) for s in n.body) + ' }'
    if k == 'if':
        e = f' else {ctext(n.els)}' if n.els is not None else ''
        return f'if ({ctext(n.cond)}) {ctext(n.then)}{e}'
    if k == 'while':
        return f'while ({ctext(n.cond)}) {ctext(n.body)}'
    if k == 'break':
        return 'break;'
    if k == 'prim':
        return f'{n.name}({", ".join(ctext(a) for a in n.args)});'
    if k == 'kwlist':
        return 'static char* kwlist[] = {' + ', '.join(n.names + ['NULL']) + '};'
    if k == 'switch':
        return f'switch ({ctext(n.e)}) {{ ' + ' '.join((f'case {v}:' if v is not None else 'default:') + ' ' + ctext(b) for v, b in n.cases) + ' }'
    raise Unsupported(f'c/csimulator.c:{n.line}: no canonical text for {k}')


# --------------------------------------------------------------------------------------------
# parser: c2lean's + while / break / switch / kwlist / OpcodeFunction*
# --------------------------------------------------------------------------------------------

class LParser(c2lean.Parser):
    def sub(self, toks):
        return LParser(toks, self.fname)

    def parse_stmt(self):
        t = self.peek()
        if t.text == 'while':
            self.next()
            self.expect('(')
            cond = self.parse_expr()
            self.expect(')')
            if self.peek().text != '{':
                raise self.err('`while` body without braces')
            return Node('while', t.line, cond=cond, body=self.parse_block())
        if t.text == 'break':
            self.next()
            self.expect(';')
            return Node('break', t.line)
        if t.text == 'switch':
            return self.parse_switch()
        if t.text == 'static':
            # static char* kwlist[] = {"a", "b", NULL};
            self.next()
            for w in ('char', '*', 'kwlist', '[', ']', '=', '{'):
                self.expect(w)
            names = []
            while True:
                x = self.next()
                if x.kind == 'str':
                    names.append(x.text)
                    self.expect(',')
                elif x.text == 'NULL':
                    break
                else:
                    raise self.err('kwlist entry', x)
            self.expect('}')
            self.expect(';')
            return Node('kwlist', t.line, names=names)
        if t.kind == 'id' and t.text == 'OpcodeFunction':
            self.next()
            self.expect('*')
            name = self.next()
            if name.kind != 'id':
                raise self.err('declarator', name)
            self.expect('=')
            init = self.parse_expr()
            self.expect(';')
            return Node('decl', t.line, ty='OpcodeFunction*', name=name.text, dims=None, init=init, const=False)
        return super().parse_stmt()

    def parse_switch(self):
        t = self.next()
        self.expect('(')
        e = self.parse_expr()
        self.expect(')')
        self.expect('{')
        cases = []
        seen_default = False
        while self.peek().text != '}':
            c = self.next()
            if c.text == 'case':
                v = self.next()
                if v.kind != 'num':
                    raise self.err('case label that is not an integer literal', v)
                val = int(v.text, 0)
            elif c.text == 'default':
                val = None
                if seen_default:
                    raise self.err('two default labels', c)
                seen_default = True
            else:
                raise self.err(f'expected `case` or `default`, found `{c.text}`', c)
            self.expect(':')
            if self.peek().text in ('case', 'default'):
                raise self.err('fall-through between case labels', c)
            if self.peek().text == '{':
                blk = self.parse_block()
                stmts = blk.body
            else:
                stmts = []
                while self.peek().text not in ('case', 'default', '}'):
                    stmts.append(self.parse_stmt())
            if not stmts or stmts[-1].kind != 'break':
                raise self.err('case that does not end in `break;` (fall-through)', c)
            body = stmts[:-1]
            for s in body:
                if any_kind(s, 'break'):
                    raise self.err('`break` inside a case body other than its last statement', c)
            cases.append((val, Node('block', c.line, body=body)))
        self.expect('}')
        if any(v is None for v, _ in cases[:-1]):
            raise self.err('default label that is not last', t)
        vals = [v for v, _ in cases if v is not None]
        if len(set(vals)) != len(vals):
            raise self.err('duplicate case label', t)
        return Node('switch', t.line, e=e, cases=cases)


def any_kind(n, kind):
    if isinstance(n, Node):
        if n.kind == kind:
            return True
        return any(any_kind(v, kind) for k, v in n.__dict__.items() if k not in ('kind', 'line'))
    if isinstance(n, (list, tuple)):
        return any(any_kind(x, kind) for x in n)
    return False


# c2lean.Parser builds sub-parsers with `Parser(...)` for macro-call arguments: make those LParsers too
def _patch_subparsers():
    src = c2lean.Parser
    return src


# --------------------------------------------------------------------------------------------
# function table
# --------------------------------------------------------------------------------------------

class CFn:
    def __init__(self, cname, lean, ret, drop_objs=(), callbacks=None):
        self.cname, self.lean, self.ret = cname, lean, ret
        self.drop_objs = drop_objs


FUNCS = [
    CFn('CSimulator_run', 'run', 'unit'),
    CFn('CSimulator_trace', 'trace', 'pair'),
    CFn('CSimulator_exec_frame', 'exec_frame', 'int'),
]
RET_TY = {'unit': 'Unit', 'int': 'Int', 'pair': 'Int × Int'}
RET_DEFAULT = {'unit': '()', 'int': '0', 'pair': '(0, 0)'}


# --------------------------------------------------------------------------------------------
# emitter
# --------------------------------------------------------------------------------------------

class LoopFuncTr(c2lean.FuncTr):
    def __init__(self, fn, consts, ctables, tables_meta, contention, enum_kind):
        super().__init__(fn.lean, consts, ctables, None, tables_meta, contention, [], enum_kind)
        self.fn = fn
        self.ns = 'CCmioH' if contention else 'CSimH'
        self.aux = []
        self.nloops = 0
        self.in_loop = False
        self.kwlist = None
        self.pending = []           # declarations between kwlist and PyArg_ParseTupleAndKeywords
        self.pyargs = None          # [(lean arg name, lean type)] once the PyArg idiom has been seen
        self.objs = []              # PyObject* variables (C name), in declaration order
        self.scalars = []           # function-level scalar locals (C name), in declaration order
        self.used_names |= {'fuel', 'l', 'lp', 'cblog', 'draws'}
        self.uses_log = False       # a callback idiom was translated: hidden local `cblog : List (List Int)` (most recent first)
        self.uses_draws = False     # draw_screen results: hidden local `draws : List Int` (input stream, head first)
        self.objlocals = set()      # `PyObject* x = NULL;` / API results inside recognised idioms
        self.loop_has_break = False

    # ---- small helpers ----------------------------------------------------------------------
    def emit(self, ind, text):
        super().emit(ind, text if text.startswith('--') else pack(text))

    def locals_struct(self):
        return f'{self.fn.lean.capitalize()}Locals'

    def lean_of(self, cname):
        return self.scope_top.vars[cname]['lean']

    def hidden(self):
        return (['cblog'] if self.uses_log else []) + (['draws'] if self.uses_draws else [])

    def pack_locals(self):
        # the hidden locals are decided at the end of the translation: placeholder, filled in by `finish`
        return '{ ' + ', '.join(f'{self.lean_of(c)} := {self.lean_of(c)}' for c in self.scalars) + '⟪H⟫ }'

    def log(self, ind, tag, vals):
        self.uses_log = True
        self.emit(ind, f'cblog := [{", ".join([str(tag)] + vals)}] :: cblog')

    def unpack(self, ind, src):
        self.emit(ind, f'st := {src}')

    def obj_sig(self):
        return ''.join(f'({self.lean_of(c)} : PyObj) ' for c in self.objs)

    def obj_args(self):
        return ''.join(f'{self.lean_of(c)} ' for c in self.objs)

    def ret_text(self, val, done):
        if self.fn.ret == 'unit':
            return f'return ({RECORD}, {done})'
        return f'return (({RECORD}, {val}), {done})'

    # ---- expressions -------------------------------------------------------------------------
    def row_expr(self, node):
        """an `OpcodeFunction*` valued expression -> Lean text of a `Sim.Instr`, or None"""
        if node.kind == 'un' and node.op == '&' and node.a.kind == 'index' and node.a.a.kind == 'name' \
                and node.a.a.id in CTBL and self.scope.lookup(node.a.a.id) is None:
            i = self.as_int(self.expr(node.a.i))
            return f'(CSimH.tget CSim.tbl_{CTBL[node.a.a.id]} {i.text})'
        if node.kind == 'name':
            v = self.scope.lookup(node.id)
            if v is not None and v['ty'] == 'row':
                return v['lean']
        if node.kind == 'cond':
            a, b = self.row_expr(node.a), self.row_expr(node.b)
            if a is not None and b is not None:
                return f'(if {self.as_bool(self.expr(node.c), node)} then {a} else {b})'
        return None

    def is_obj(self, node):
        if node.kind == 'name':
            v = self.scope.lookup(node.id)
            return v is not None and v['ty'] == 'obj'
        return False

    def expr(self, node):
        k = node.kind
        if k == 'bin' and node.op in ('==', '!=') and is_name(node.b, 'Py_None') and self.is_obj(node.a):
            v = self.scope.lookup(node.a.id)
            return Val('int', f'({v["lean"]} {"=" if node.op == "==" else "≠"} PyObj.none)', kind='bool')
        if k == 'un' and node.op == '!' and node.a.kind == 'member' and node.a.f == 'func':
            r = self.row_expr(node.a.a)
            if r is None:
                raise self.err(node, '`->func` of something that is not a dispatch row')
            return Val('int', f'(CSimH.isNull {r} = true)', kind='bool')
        if k == 'cond' and node.c.kind == 'call' and is_name(node.c.f, 'PyLong_Check') and len(node.c.args) == 1 and self.is_obj(node.c.args[0]):
            # PyLong_Check(x) ? PyLong_AsLong(x) : K
            x = node.c.args[0]
            if not (node.a.kind == 'call' and is_name(node.a.f, 'PyLong_AsLong') and len(node.a.args) == 1 and c2lean.same(node.a.args[0], x)):
                raise self.err(node, 'PyLong_Check(x) ? ... : ... whose first branch is not PyLong_AsLong(x)')
            v = self.scope.lookup(x.id)
            a = Val('long', f'(CInt.i64 (PyObj.intVal {v["lean"]}))')
            a2, b2, ty = self.common(a, self.expr(node.b), node)
            return Val(ty, f'(if (PyObj.isInt {v["lean"]} = true) then {a2.text} else {b2.text})')
        return super().expr(node)

    # ---- statements ----------------------------------------------------------------------------
    def stmt(self, st, ind):
        k = st.kind
        if k == 'kwlist':
            if self.kwlist is not None or self.scope is not self.scope_top or self.in_loop:
                raise self.err(st, 'second kwlist / kwlist not at function level')
            self.kwlist = st.names
            return
        if k == 'decl':
            return self.decl(st, ind)
        if k == 'while':
            return self.while_stmt(st, ind)
        if k == 'break':
            if not self.in_loop or self.switch_depth:
                raise self.err(st, '`break` outside a translated loop')
            self.loop_has_break = True
            self.emit(ind, f'return (({RECORD}, {self.pack_locals()}), .break_)')
            return
        if k == 'switch':
            return self.switch_stmt(st, ind)
        if k == 'return':
            return self.return_stmt(st, ind)
        if k == 'expr':
            t = ctext(st)
            if t == 'Py_RETURN_NONE;':
                if self.fn.ret != 'unit':
                    if self.in_loop or self.nloops == 0 or self.loop_has_break:
                        raise self.err(st, 'Py_RETURN_NONE in a function with a result')
                    # after a `while (1)` without `break`: unreachable
                    self.emit(ind, '-- Py_RETURN_NONE: unreachable (the loop has no break)')
                    self.emit(ind, self.ret_text(RET_DEFAULT[self.fn.ret], 'true'))
                    return
                if self.in_loop:
                    self.emit(ind, f'return (({RECORD}, {self.pack_locals()}), .return_ ())')
                else:
                    self.emit(ind, self.ret_text('()', 'true'))
                return
            if t == 'Py_XDECREF(border);' and self.scope.lookup('border') is not None:
                self.emit(ind, '-- Py_XDECREF(border)')
                self.emit(ind, 'pure ()')
                return
            if t == 'CHECK_SIGNALS;':
                self.emit(ind, '-- CHECK_SIGNALS: no effect on the state')
                self.emit(ind, 'pure ()')
                return
            e = st.e
            if e.kind == 'call':
                return self.call_stmt(st, e, ind)
            if e.kind == 'assign' and e.op == '=':
                r = self.row_expr(e.value)
                if r is not None:
                    v = self.scope.lookup(e.target.id) if e.target.kind == 'name' else None
                    if v is None or v['ty'] != 'row':
                        raise self.err(st, 'dispatch row assigned to something that is not an `OpcodeFunction*`')
                    self.emit(ind, f'{v["lean"]} := {r}')
                    return
        return super().stmt(st, ind)

    def call_stmt(self, st, e, ind):
        t = ctext(st)
        # p->func(self, p->lookup, p->args);
        if e.f.kind == 'member' and e.f.f == 'func':
            r = self.row_expr(e.f.a)
            p = ctext(e.f.a)
            if r is None or t != f'{p}->func(self, {p}->lookup, {p}->args);':
                raise self.err(st, 'indirect call that is not `p->func(self, p->lookup, p->args);` on a dispatch row')
            row = f'(CmioVsSim.toCmio {r})' if self.contention else r
            self.emit(ind, f'st := {self.ns}.execLeaf cfg {row} {RECORD}')
            return
        # accept_interrupt(self, e);
        if is_name(e.f, 'accept_interrupt') and len(e.args) == 2 and is_name(e.args[0], 'self'):
            a = self.conv(self.expr(e.args[1]), 'unsigned', st)
            r = self.fresh('ai')
            self.emit(ind, f'let {r} := {self.ns}.accept_interrupt cfg {a.text} {RECORD}')
            self.unpack(ind, f'{r}.1')
            return
        raise self.err(st, f'call statement `{t[:70]}`')

    def return_stmt(self, st, ind):
        v = st.value
        val = None
        if v is not None and v.kind == 'call' and is_name(v.f, 'Py_BuildValue') and self.fn.ret == 'pair' and len(v.args) == 3 \
                and v.args[0].kind == 'str' and v.args[0].value == '"(IL)"':
            a = self.conv(self.expr(v.args[1]), 'unsigned', st)     # I: unsigned int
            b = self.conv(self.expr(v.args[2]), 'long', st)         # L: long long
            val = f'({a.text}, {b.text})'
        elif v is not None and v.kind == 'call' and is_name(v.f, 'PyLong_FromLong') and self.fn.ret == 'int' and len(v.args) == 1:
            val = self.conv(self.expr(v.args[0]), 'long', st).text
        if val is None:
            raise self.err(st, f'`{ctext(st)[:60]}` outside a recognised idiom')
        if self.in_loop:
            self.emit(ind, f'return (({RECORD}, {self.pack_locals()}), .return_ {val})')
        else:
            self.emit(ind, self.ret_text(val, 'true'))

    def decl(self, st, ind):
        ty = st.ty
        top = self.scope is self.scope_top and not self.in_loop
        if self.kwlist is not None and self.pyargs is None:
            # between kwlist and the PyArg idiom: the variables the arguments are parsed into
            if not top:
                raise self.err(st, 'declaration before PyArg_ParseTupleAndKeywords that is not at function level')
            if ty not in ('unsigned', 'int', 'ull', 'PyObject*'):
                raise self.err(st, f'argument variable of type {ty}')
            self.pending.append(st)
            return
        if ty == 'OpcodeFunction*':
            r = self.row_expr(st.init)
            if r is None:
                raise self.err(st, '`OpcodeFunction*` not initialised with `&TABLE[i]`')
            ln = self.declare(st, st.name, 'row')
            self.emit(ind, f'let mut {ln} : Sim.Instr := {r}')
            return
        if ty == 'PyObject*':
            t = ctext(st)
            if t in ('PyObject* i = NULL;', 'PyObject* border = PyObject_GetAttrString(self->tracer, "border");'):
                # an object the loop only hands on to callbacks
                self.scope.vars[st.name] = dict(lean='-', ty='objlocal')
                self.emit(ind, f'-- {t}')
                self.emit(ind, 'pure ()')
                return
            raise self.err(st, f'`PyObject* {st.name}` outside a recognised idiom')
        if ty == 'int' and ctext(st) == 'int rv = draw_screen(self, draw, frame, border, keyboard);':
            for o in ('draw', 'keyboard'):
                v = self.scope.lookup(o)
                if v is None or v['ty'] != 'obj':
                    raise self.err(st, f'draw_screen: `{o}` is not an object argument')
            self.uses_draws = True
            self.log(ind, 3, [self.name_val('frame', 'ull', st)])
            ln = self.declare(st, st.name, 'int')
            self.emit(ind, f'let mut {ln} : Int := (CInt.i32 (draws.headD 0))')
            self.emit(ind, 'draws := draws.tail')
            return
        if ty in WRAP and st.dims is None and st.init is None:
            # C leaves the value indeterminate; reading it before a write is undefined behaviour.  0 stands in.
            ln = self.declare(st, st.name, ty)
            self.emit(ind, f'let mut {ln} : Int := 0')
            if top:
                self.scalars.append(st.name)
            return
        n0 = len(self.scope.vars)
        super().decl(st, ind)
        if top and ty in WRAP and st.dims is None and len(self.scope.vars) > n0:
            self.scalars.append(st.name)

    FMT_TY = {'I': 'unsigned', 'i': 'int', 'K': 'ull', 'p': 'int', 'O': 'PyObject*'}

    def pyarg_idiom(self, st, ind):
        """if (!PyArg_ParseTupleAndKeywords(args, kwds, "<fmt>", kwlist, &a, ...)) { return NULL; }"""
        c = st.cond
        call = c.a if (c.kind == 'un' and c.op == '!') else None
        if not (call is not None and call.kind == 'call' and is_name(call.f, 'PyArg_ParseTupleAndKeywords') and st.els is None
                and ctext(st.then) == '{ return NULL; }' and len(call.args) >= 4 and ctext(call.args[0]) == 'args'
                and ctext(call.args[1]) == 'kwds' and call.args[2].kind == 'str' and ctext(call.args[3]) == 'kwlist'
                and all(a.kind == 'un' and a.op == '&' and a.a.kind == 'name' for a in call.args[4:])):
            raise self.err(st, 'PyArg_ParseTupleAndKeywords block does not have the expected shape')
        if self.kwlist is None or self.pyargs is not None or self.scope is not self.scope_top:
            raise self.err(st, 'PyArg_ParseTupleAndKeywords without kwlist / twice')
        fmt = call.args[2].value.strip('"')
        names = [a.a.id for a in call.args[4:]]
        chars, opt = [], False
        for ch in fmt:
            if ch == '|':
                if opt:
                    raise self.err(st, 'two `|` in the format')
                opt = True
            elif ch in self.FMT_TY:
                chars.append((ch, opt))
            else:
                raise self.err(st, f'format unit `{ch}`')
        if not (len(chars) == len(names) == len(self.kwlist) == len(self.pending)) or [d.name for d in self.pending] != names:
            raise self.err(st, 'format, kwlist, declarations and argument addresses do not line up')
        self.pyargs = []
        for (ch, optional), d in zip(chars, self.pending):
            if d.ty != self.FMT_TY[ch]:
                raise self.err(st, f'format unit {ch} parsed into a variable of type {d.ty}')
            arg = 'a_' + d.name
            self.used_names.add(arg)
            if ch == 'O':
                if d.init is not None and ctext(d.init) != 'Py_None':
                    raise self.err(st, f'object argument {d.name} with an initialiser other than Py_None')
                if optional != (d.init is not None):
                    raise self.err(st, f'object argument {d.name}: optional arguments (only) need the initialiser Py_None')
                ln = self.declare(d, d.name, 'obj')
                self.objs.append(d.name)
                # an omitted optional object keeps Py_None
                self.pyargs.append((ln, 'PyObj'))
                continue
            ln = self.declare(d, d.name, d.ty)
            self.scalars.append(d.name)
            if ch == 'p':
                conv = lambda x: f'(if {x} = true then 1 else 0)'
                lty = 'Bool'
            else:
                w = WRAP[d.ty]
                conv = lambda x, w=w: f'({w} {x})'
                lty = 'Int'
            if optional:
                if d.init is None:
                    raise self.err(st, f'optional argument {d.name} without an initialiser')
                v = self.conv(self.expr(d.init), d.ty, d)
                self.emit(ind, f'let mut {ln} : Int := {v.text}')
                b = self.fresh('v')
                self.emit(ind, f'if let some {b} := {arg} then')
                self.emit(ind + 1, f'{ln} := {conv(b)}')
                self.pyargs.append((arg, f'Option {lty}'))
            else:
                if d.init is not None:
                    raise self.err(st, f'required argument {d.name} with an initialiser')
                self.emit(ind, f'let mut {ln} : Int := {conv(arg)}')
                self.pyargs.append((arg, lty))

    def if_stmt(self, st, ind):
        t = ctext(st)
        if 'PyArg_ParseTupleAndKeywords' in t:
            return self.pyarg_idiom(st, ind)
        if t in ('if (PyErr_Occurred()) { return NULL; }', 'if (PyErr_Occurred()) { Py_XDECREF(i); return NULL; }'):
            self.emit(ind, '-- if (PyErr_Occurred()) return NULL: the callbacks of the model do not raise')
            self.emit(ind, 'pure ()')
            return
        if t == 'if ((self->tracer == NULL)) { PyErr_SetString(PyExc_ValueError, "no tracer set"); return NULL; }':
            self.emit(ind, '-- if (self->tracer == NULL) raise ValueError: a tracer is attached (precondition of the model)')
            self.emit(ind, 'pure ()')
            return
        if t == 'if ((border == NULL)) { return NULL; }' and self.scope.lookup('border') is not None:
            self.emit(ind, '-- if (border == NULL) return NULL: the tracer has a `border` attribute (precondition of the model)')
            self.emit(ind, 'pure ()')
            return
        if t == 'if ((rv == -2)) { return NULL; }' and self.scope.lookup('rv') is not None and self.uses_draws:
            self.emit(ind, '-- if (rv == -2) return NULL: draw_screen raised (not part of the model: the stream `draws` holds no -2)')
            self.emit(ind, 'pure ()')
            return
        cb = self.callback_idiom(st, t, ind)
        if cb:
            return
        return super().if_stmt(st, ind)

    # callbacks: recognised by exact text; logged in `cblog` (most recent first), tags:
    #   0 disassemble(pc)   1 trace(...)   2 exec_map.add(pc)   3 draw_screen(frame)
    CB_DIS = ('if (disassembling) { PyObject* arg = PyLong_FromLong(pc); i = PyObject_CallOneArg(disassemble, arg); Py_XDECREF(arg); '
              'if ((i == NULL)) { return NULL; } }')
    CB_MAP = ('if ((exec_map != Py_None)) { PyObject* addr = PyLong_FromLong(pc); int rv = PySet_Add(exec_map, addr); Py_XDECREF(addr); '
              'if ((rv == -1)) { %sreturn NULL; } }')
    CB_TRACE = ('if (disassembling) { PyObject* args = Py_BuildValue("(INK)", pc, i, t0); '
                'PyObject* rv = (args ? PyObject_CallObject(trace, args) : NULL); Py_XDECREF(args); if ((rv == NULL)) { return NULL; } '
                'Py_DECREF(rv); } else { CHECK_SIGNALS; }')
    CB_TRACE_FRAME = ('if ((trace != Py_None)) { PyObject* m_args = Py_BuildValue("(IIK)", fetch_count, pc, t0); '
                      'PyObject* rv = PyObject_Call(trace, m_args, NULL); Py_XDECREF(m_args); if ((rv == NULL)) { return NULL; } Py_DECREF(rv); }')

    def name_val(self, cname, ty, st):
        v = self.scope.lookup(cname)
        if v is None or v['ty'] not in WRAP:
            raise self.err(st, f'callback idiom: `{cname}` is not a scalar in scope')
        return self.conv(Val(v['ty'], v['lean'], nn=v['ty'] in ('byte', 'unsigned', 'ull')), ty, st).text

    def callback_idiom(self, st, t, ind):
        if t == self.CB_DIS:
            self.emit(ind, f'if {self.as_bool(self.expr(st.cond), st)} then')
            self.log(ind + 1, 0, [self.name_val('pc', 'long', st)])
            return True
        if t in (self.CB_MAP % '', self.CB_MAP % 'Py_XDECREF(i); '):
            self.emit(ind, f'if {self.as_bool(self.expr(st.cond), st)} then')
            self.log(ind + 1, 2, [self.name_val('pc', 'long', st)])
            return True
        if t == self.CB_TRACE:
            # format "(INK)": pc unsigned, the disassembly object, t0 unsigned long long
            self.emit(ind, f'if {self.as_bool(self.expr(st.cond), st)} then')
            self.log(ind + 1, 1, [self.name_val('pc', 'unsigned', st), self.name_val('t0', 'ull', st)])
            self.emit(ind, 'else')
            self.emit(ind + 1, '-- CHECK_SIGNALS: no effect on the state')
            self.emit(ind + 1, 'pure ()')
            return True
        if t == self.CB_TRACE_FRAME:
            # format "(IIK)": fetch_count converted to unsigned, pc, t0
            self.emit(ind, f'if {self.as_bool(self.expr(st.cond), st)} then')
            self.log(ind + 1, 1, [self.name_val('fetch_count', 'unsigned', st), self.name_val('pc', 'unsigned', st), self.name_val('t0', 'ull', st)])
            return True
        return False

    def switch_stmt(self, st, ind):
        e = self.promote(self.expr(st.e))
        self.switch_depth += 1
        first = True
        has_default = False
        for v, body in st.cases:
            if v is None:
                has_default = True
                if first:
                    self.block(body, ind)
                else:
                    self.emit(ind, 'else')
                    self.block(body, ind + 1)
            else:
                self.emit(ind, f'{"if" if first else "else if"} ({e.text} = {v}) then')
                self.block(body, ind + 1)
            first = False
        self.switch_depth -= 1

    def while_stmt(self, st, ind):
        if self.in_loop or self.scope is not self.scope_top:
            raise self.err(st, 'loop that is not at function level')
        if ctext(st.cond) != '1':
            raise self.err(st, 'loop other than `while (1)`')
        if self.pyargs is None:
            raise self.err(st, 'loop before the arguments are parsed')
        self.nloops += 1
        name = f'{self.fn.lean}_loop{self.nloops}'
        ls = self.locals_struct()
        rho = RET_TY[self.fn.ret]
        loop_scalars = list(self.scalars)
        outer, self.lines = self.lines, []
        self.in_loop = True
        self.block(st.body, 1)
        self.emit(1, f'return (({RECORD}, {self.pack_locals()}), .continue_)')
        body_lines, self.lines = self.lines, outer
        self.in_loop = False
        if self.scalars != loop_scalars:
            raise self.err(st, 'internal: function-level declaration inside the loop')
        sig = self.obj_sig()
        hd = (f'/-- one pass of the `while (1)` loop at line {st.line} of `{self.fn.cname}`: ((state, locals), how the pass ended) -/\n'
              f'@[cloop_def] def {name}_body {{μ : Type}} [MemLike μ] (cfg : Cfg) {sig}(s : St μ) (l : {ls}) : (St μ × {ls}) × LoopExit ({rho}) := Id.run do')
        pre = ['  let mut st := s'] + [f'  let mut {self.lean_of(c)} := l.{self.lean_of(c)}' for c in self.scalars] + ['⟪HPRE⟫']
        self.aux.append('\n'.join([hd] + pre + body_lines))
        args = self.obj_args()
        self.aux.append(
            f'/-- the loop, at most `fuel` passes (`Z80.iterate`); `.continue_`: the fuel ran out -/\n'
            f'def {name} {{μ : Type}} [MemLike μ] (cfg : Cfg) {sig}(fuel : Nat) (s : St μ) (l : {ls}) : (St μ × {ls}) × LoopExit ({rho}) :=\n'
            f'  iterate (fun x => {name}_body cfg {args}x.1 x.2) fuel (s, l)')
        r = self.fresh('lp')
        self.emit(ind, f'let {r} := {name} cfg {args}fuel {RECORD} {self.pack_locals()}')
        self.unpack(ind, f'{r}.1.1')
        for c in self.scalars:
            self.emit(ind, f'{self.lean_of(c)} := {r}.1.2.{self.lean_of(c)}')
        self.lines.append('  ' * ind + f'⟪HPOST {r}⟫')
        self.emit(ind, f'match {r}.2 with')
        self.emit(ind, '| .continue_ => ' + self.ret_text(RET_DEFAULT[self.fn.ret], 'false'))
        self.emit(ind, '| .return_ v => ' + self.ret_text('v', 'true'))
        self.emit(ind, '| .break_ => pure ()')

    # ---- a whole function -------------------------------------------------------------------------
    def translate(self, body):
        self.scope_top = self.scope
        self.switch_depth = 0
        self.block(body, 1, new_scope=False)
        if self.nloops == 0:
            raise Unsupported(f'c/csimulator.c: {self.fn.cname}: no loop')
        last = body.body[-1]
        if not (last.kind == 'return' or ctext(last) == 'Py_RETURN_NONE;'):
            raise Unsupported(f'c/csimulator.c: {self.fn.cname}: does not end with a return')
        ls = self.locals_struct()
        hid = self.hidden()
        hty = {'cblog': 'List (List Int)', 'draws': 'List Int'}
        out = [f'/-- the scalar locals of `{self.fn.cname}` (the loop state besides the machine state)'
               + ('; `cblog`: the calls made to the Python callbacks, most recent first ([0, pc] disassemble, [1, …] trace, [2, pc] exec_map.add, '
                  '[3, frame] draw_screen)' if 'cblog' in hid else '')
               + ('; `draws`: the values `draw_screen` will return, head first' if 'draws' in hid else '')
               + f' -/\nstructure {ls} where\n'
               + '\n'.join([f'  {self.lean_of(c)} : Int' for c in self.scalars] + [f'  {h} : {hty[h]}' for h in hid])]
        out += self.aux
        rho = RET_TY[self.fn.ret]
        rty = 'St μ × Bool' if self.fn.ret == 'unit' else f'(St μ × {rho}) × Bool'
        sig = ''.join(f'({a} : {t}) ' for a, t in self.pyargs)
        hd = (f'@[cloop_def] def {self.fn.lean} {{μ : Type}} [MemLike μ] (cfg : Cfg) (fuel : Nat) {sig}(s : St μ) : {rty} := Id.run do')
        hsig = ''.join(f'({h}0 : {hty[h]}) ' for h in hid)
        hd = hd.replace('(s : St μ) :', hsig + '(s : St μ) :')
        pre = ['  let mut st := s'] + [f'  let mut {h} : {hty[h]} := {h}0' for h in hid]
        out.append('\n'.join([hd] + pre + self.lines))
        text = '\n\n'.join(out)
        # fill in the hidden locals
        text = text.replace('⟪H⟫', ''.join(f', {h} := {h}' for h in hid))
        text = text.replace('⟪HPRE⟫\n', ''.join(f'  let mut {h} := l.{h}\n' for h in hid))
        text = re.sub(r'( *)⟪HPOST (\w+)⟫\n', lambda m: ''.join(f'{m.group(1)}{h} := {m.group(2)}.1.2.{h}\n' for h in hid), text)
        return text


def translate(repo, contention=False):
    """-> {file name under Gen/: lean text}"""
    with open(os.path.join(repo, 'c/csimulator.c')) as f:
        raw = f.read()
    text, macros = c2lean.preprocess(raw, {'CONTENTION'} if contention else set())
    c2lean.check_macros(macros, contention)
    c2lean.check_fixed_text(text, contention)
    if macros.get('CHECK_SIGNALS') != (EXPECTED_CHECK_SIGNALS[0], norm_ws(EXPECTED_CHECK_SIGNALS[1])):
        raise Unsupported(f'macro CHECK_SIGNALS changed: expected `{EXPECTED_CHECK_SIGNALS[1]}`, found `{macros.get("CHECK_SIGNALS")}`')
    consts, ctables = c2lean.parse_globals(text)
    tables_meta, _, _ = py2lean.collect_tables(repo)
    _, _, stmeta = py2lean.gen_simtables(repo)
    enum_kind = {n: k for k, names in stmeta['kinds'].items() for n in names}
    ns = 'CCmioH' if contention else 'CSimH'
    sub = 'CCmioLoops' if contention else 'CLoops'
    build = '-DCONTENTION' if contention else 'plain'
    files = {}
    for fn in FUNCS:
        header = f'static PyObject* {fn.cname}(CSimulatorObject* self, PyObject* args, PyObject* kwds) {{'
        at = text.find(header)
        if at < 0 or text.find(header, at + 1) >= 0:
            raise Unsupported(f'c/csimulator.c: `{header}` not found exactly once')
        start = at + len(header) - 1
        end = c2lean.function_text(text, start)
        toks = c2lean.tokenize(text[start:end], text.count('\n', 0, start) + 1)
        toks = expand_loop_macros(toks, macros)
        toks = c2lean.expand(toks, macros, hide=('CHECK_SIGNALS',))
        p = LParser(toks + [Tok('eof', '', toks[-1].line)], fn.cname)
        body = p.parse_block()
        if p.peek().kind != 'eof':
            raise Unsupported(f'c/csimulator.c: {fn.cname}: trailing tokens')
        ft = LoopFuncTr(fn, consts, ctables, tables_meta, contention, enum_kind)
        lean = ft.translate(body)
        head = [f'-- GENERATED by translate/cloop2lean.py from c/csimulator.c ({build} build): {fn.cname}. Do not edit.',
                'import SkoolVerif.Proofs.CVsPyStepDefs',
                f'import SkoolVerif.Gen.{"CCmioH" if contention else "CH"}.accept_interrupt',
                'import SkoolVerif.Prelude.Loop', 'set_option linter.unusedVariables false', 'open Z80']
        if contention:
            head.append('open Contend')
        head += ['', f'namespace {ns}.Loop', '']
        files[f'{sub}/{fn.lean}.lean'] = '\n'.join(head) + lean + f'\n\nend {ns}.Loop\n'
    return files


def expand_loop_macros(toks, macros):
    """`GET_OPCODE_FUNC(&opcodes);` -> the macro's body with its parameter substituted (text checked by c2lean.check_macros)"""
    params, body = macros['GET_OPCODE_FUNC']
    out = []
    i = 0
    while i < len(toks):
        t = toks[i]
        if t.kind == 'id' and t.text == 'GET_OPCODE_FUNC':
            args, j = c2lean.split_args(toks, i + 1)
            if len(args) != 1 or ' '.join(x.text for x in args[0]) != '& opcodes':
                raise Unsupported(f'c/csimulator.c:{t.line}: GET_OPCODE_FUNC called with something other than `&opcodes`')
            for b in c2lean.tokenize(body, t.line):
                b.line = t.line
                if b.kind == 'id' and b.text == params[0]:
                    out.extend(Tok(x.kind, x.text, t.line) for x in args[0])
                else:
                    out.append(b)
            # the macro's text ends in `}`: the `;` after the call is an empty statement
            if j < len(toks) and toks[j].text == ';':
                j += 1
            i = j
            continue
        out.append(t)
        i += 1
    return out


if __name__ == '__main__':
    repo = sys.argv[1] if len(sys.argv) > 1 else '/repo'
    outdir = sys.argv[2] if len(sys.argv) > 2 else os.path.join(os.path.dirname(os.path.abspath(__file__)), '..', 'lean', 'SkoolVerif', 'Gen')
    for cont in (False, True):
        c2lean.write_files(outdir, translate(repo, cont))
    print('generated CLoops, CCmioLoops')
