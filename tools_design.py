#!/usr/bin/env python3
"""Assembles DESIGN.md from DESIGN.tmpl.md + MANIFEST data + KNOWN_FINDINGS.txt + seeded/*/meta.json."""
import glob, json, os, re
HERE = os.path.dirname(os.path.abspath(__file__))
import importlib.util
spec = importlib.util.spec_from_file_location('tm', os.path.join(HERE, 'tools_manifest.py'))
tm = importlib.util.module_from_spec(spec); spec.loader.exec_module(tm)

def per_property():
    props = [json.loads(l) for l in open(os.path.join(HERE, 'properties.jsonl'))]
    out = []
    for p in props:
        c = tm.CHECKS.get(p['id'])
        out.append(f"### {p['id']} — {p['title']}\n")
        if not c:
            out.append('*Check not yet integrated (builder still running); listed under `not_applicable` in MANIFEST.json until then.*\n')
            continue
        ev = {}
        try:
            ev = json.load(open(os.path.join(HERE, 'evidence', p['id'] + '.json')))
        except Exception:
            pass
        cov = ev.get('coverage', {})
        out.append(f"*Technique:* {c['technique']}.\n")
        out.append(c['text'] + '\n')
        out.append(f"*Trusted / assumed:* {c['note']}.\n")
        if cov:
            out.append(f"*Last committed evidence ({ev.get('tier')} tier, seed {ev.get('seed')}):* {cov.get('discharged')}/{cov.get('obligations')} theorems discharged, "
                       f"{cov.get('correspondence_cases')} correspondence cases ({cov.get('correspondence_diffs')} diffs), {cov.get('evaluations')} cases explored, "
                       f"{ev.get('wall_s')} s; theorem names are listed under `coverage.theorems` in `evidence/{p['id']}.json`.\n")
        extra = tm.DESIGN_NOTES.get(p['id']) if hasattr(tm, 'DESIGN_NOTES') else None
        if extra:
            out.append(extra + '\n')
    return '\n'.join(out)

def findings():
    fixed, known = [], []
    for line in open(os.path.join(HERE, 'KNOWN_FINDINGS.txt')):
        line = line.strip()
        m = re.match(r'fixed:\s+property=(\S+)\s+(\S+)\s+(.*)', line)
        if m:
            fixed.append(m.groups())
        m = re.match(r'known:\s+property=(\S+)\s+key=(\S+)\s+(.*)', line)
        if m:
            known.append(m.groups())
    out = [f'{len(fixed)} genuine defects were repaired by minimal `fix:` commits in /repo (each replayed against the real tools before '
           'and after; the pinned suite passes unedited with all of them: `tools_baseline.sh`), '
           f'{len(known)} are recorded as known findings (no small safe repair, or the behaviour is pinned by the suite / a documented design limit). '
           'Every one was found by a proof obligation that would not close, a correspondence diff, or the e2e search of a check.\n',
           '**Repaired (`fixed:` lines of KNOWN_FINDINGS.txt; a fixed entry suppresses nothing):**\n',
           '| property | commit | what failed |', '|---|---|---|']
    for p, c, d in fixed:
        out.append(f'| {p} | `{c}` | {d.replace("|", "/")} |')
    out += ['', '**Known findings (`known:` lines; the check prints KNOWN-FINDING for exactly this key and exits 0):**\n',
            '| property | key | what fails |', '|---|---|---|']
    for p, k, d in known:
        out.append(f'| {p} | `{k}` | {d.replace("|", "/")} |')
    return '\n'.join(out)

def seeded():
    rows = []
    for f in sorted(glob.glob(os.path.join(HERE, 'seeded', '*', 'meta.json'))):
        m = json.load(open(f))
        rows.append(m)
    if not rows:
        return '*No seeded change has been confirmed yet.*'
    out = [f'Three rounds, one change per property per round (60), and a fourth, partial round of {len(rows)-60} more run by a later session against the checks as they stood (C02, C09, C11, C14, C18 were reported on the first run with concrete inputs; C04 was missed and its check strengthened, see its row) — {len(rows)} in all. Each change was written by a fresh sub-agent that saw only the '
           'property text and its own scratch worktree of /repo (rounds 2 and 3 were also told which changes had already been used, so that '
           'they picked a different function and clause), confirmed by the integrator in that worktree (`tools_seed.sh`: the existing suite still '
           'passes; the demo fails with the change and passes without it; the C extension is rebuilt around the demo when the C source changed), '
           'then run against the checks. While builders and sweepers were reading /repo, the seeded tree was a scratch copy of '
           '`skoolkit/` + `c/` with the patch applied, selected with `SKOOLKIT_REPO` (the checks take their import root and the C source from it; '
           'evidence of such runs goes to a scratch directory); a final pass re-ran all 60 changes against the final checks that way, and a sample '
           'was run with `git -C /repo apply <patch>` … `git -C /repo checkout -- .` on /repo itself. Where a change was missed, or reported '
           'without a concrete input, the check was strengthened and the row says so.\n',
           '| seeded id | breaks | needs, in order to manifest | caught by | how |', '|---|---|---|---|---|']
    out.insert(1, 'Final pass of rounds 1–3 (all 60 changes against the final checks, `seeded/FINAL_PASS.txt`): 60/60 reported with exit 1 and at least one VIOLATION line '
                  'carrying a concrete failing input (none with `no-failing-input-found`); 16 of them were also run on /repo itself '
                  '(`git -C /repo apply` … `git -C /repo checkout -- .`) with the same outcome.\n')
    for m in rows:
        out.append(f"| {m['id']} | {m['property']} | {m['needs'].replace('|','/')} | {m.get('caught_by','?')} | {m.get('how','').replace('|','/')} |")
    return '\n'.join(out)

def sweeps():
    try:
        rows = json.load(open(os.path.join(HERE, 'sweeps.json')))
    except Exception:
        return ''
    out = ['\n### Mutation sweeps (hardening by agents that know the checks)\n',
           'Separately from the seeded changes above, sub-agents ran systematic mutation sweeps over the anchored functions of a property '
           '(mechanical operator/constant/branch mutants plus hand-picked maintainer slips), kept the mutants the pinned unit tests do not kill, '
           'ran the quick check on each, decided for every survivor whether it breaks the property *as stated* (a demo on the real tools), '
           'and strengthened the check for each real miss; the unchanged tree was then re-run on seeds 0-5 and once in the thorough tier.\n',
           '| property | mutants | pass pinned tests | caught (input) | caught (no input) | survived | survivors breaking the property | now caught | what was missing |',
           '|---|---|---|---|---|---|---|---|---|']
    for r in rows:
        out.append(f"| {r['props']} | {r['generated']} | {r['pass_tests']} | {r['caught_input']} | {r['caught_no_input']} | {r['survived']} | "
                   f"{r['property_breaking_missed']} | {r['now_caught']} | {r['notes'].replace('|', '/')} |")
    return '\n'.join(out)

def main():
    t = open(os.path.join(HERE, 'DESIGN.tmpl.md')).read()
    t = t.replace('@@PER_PROPERTY@@', per_property()).replace('@@FINDINGS@@', findings()).replace('@@SEEDED@@', seeded() + '\n' + sweeps())
    lines = open(os.path.join(HERE, 'KNOWN_FINDINGS.txt')).read().split('\n')
    nf = sum(1 for l in lines if l.startswith('fixed:'))
    nk = sum(1 for l in lines if l.startswith('known:'))
    nthm = 0
    for f in glob.glob(os.path.join(HERE, 'evidence', 'C*.json')):
        try:
            nthm += json.load(open(f))['coverage']['obligations']
        except Exception:
            pass
    t = t.replace('@@NTHM@@', str(nthm))
    t = t.replace('@@NTOTAL@@', str(nf + nk)).replace('@@NFIXED@@', str(nf)).replace('@@NKNOWN@@', str(nk))
    open(os.path.join(HERE, 'DESIGN.md'), 'w').write(t)

if __name__ == '__main__':
    main()
